#!/venv/bin/python
"""Sensitivity probe: copy /repo's miasm package to a scratch dir outside
/repo and /verif, apply one textual mutation, run a check against the copy
(VERIF_REPO), delete the copy.

usage: sens.py <PID> <relative file> <old text> <new text> [extra check args]
Prints CAUGHT / MISSED and the check's VIOLATION lines.
"""
import os
import shutil
import subprocess
import sys
import tempfile


def main():
    pid, rel, old, new = sys.argv[1:5]
    extra = sys.argv[5:]
    scratch = tempfile.mkdtemp(prefix="miasm_mut_", dir="/tmp")
    try:
        shutil.copytree("/repo/miasm", os.path.join(scratch, "miasm"),
                        ignore=shutil.ignore_patterns("*.so", "__pycache__"))
        path = os.path.join(scratch, rel)
        src = open(path).read()
        if src.count(old) != 1:
            print("MUTATION-ERROR: old text occurs %d times" % src.count(old))
            return 2
        open(path, "w").write(src.replace(old, new))
        env = dict(os.environ, VERIF_REPO=scratch, VERIF_EVIDENCE_DIR=os.path.join(scratch, "evidence"),
                   VERIF_REPLAY_DIR=os.path.join(scratch, "replays"))
        p = subprocess.run(["/verif/check", pid] + (extra or ["quick"]), env=env,
                           stdout=subprocess.PIPE, stderr=subprocess.STDOUT)
        out = p.stdout.decode(errors="replace")
        lines = [l for l in out.splitlines() if l.startswith(("VIOLATION", "  class=", "HARNESS", "DONE", "KNOWN"))]
        print("\n".join(lines[:12]))
        print("CAUGHT" if p.returncode == 1 else "MISSED (exit %d)" % p.returncode)
        return 0
    finally:
        shutil.rmtree(scratch, ignore_errors=True)


sys.exit(main())
