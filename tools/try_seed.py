#!/venv/bin/python
"""Confirm a seeded change and run the checks against it.

usage: try_seed.py <PID> <dir with patch.diff, demo.py[, notes.md]> <seed name> [--keep] [--tier quick|thorough] [--checks C20,C21]

Steps (all in a scratch git worktree of /repo outside /repo and /verif, removed at the end):
 1. demo on the unmodified tree      -> must exit 0
 2. apply patch, rebuild C extensions, demo -> must exit non-zero
 3. pinned suite (test/arch/mep, 280 tests) with the patch -> must pass
 4. ./check <PID> with VERIF_REPO=<worktree> -> reports whether the check catches it
If 1-3 hold the seed is stored as /verif/seeded/<name>/ (patch.diff, demo.py, notes.md, meta.json).
"""
import json
import os
import shutil
import subprocess
import sys
import tempfile
import time


HOME = os.path.dirname(os.path.dirname(os.path.abspath(__file__)))


def sh(cmd, cwd=None, env=None, timeout=1800):
    p = subprocess.run(cmd, shell=True, cwd=cwd, env=env, stdout=subprocess.PIPE, stderr=subprocess.STDOUT, timeout=timeout)
    return p.returncode, p.stdout.decode(errors="replace")


def main():
    pid, src, name = sys.argv[1:4]
    rest = sys.argv[4:]
    tier = "quick"
    checks = [pid]
    if "--tier" in rest:
        tier = rest[rest.index("--tier") + 1]
    if "--checks" in rest:
        checks = rest[rest.index("--checks") + 1].split(",")
    patch = os.path.join(src, "patch.diff")
    demo = os.path.join(src, "demo.py")
    wt = tempfile.mkdtemp(prefix="seedwt_", dir="/tmp")
    os.rmdir(wt)
    meta = {"property": pid, "name": name, "ran": []}
    try:
        rc, out = sh("git -C /repo worktree add --detach %s HEAD" % wt)
        assert rc == 0, out
        sh("rm -rf build; /venv/bin/python setup.py build_ext --inplace", cwd=wt)
        env = dict(os.environ, TMPDIR=wt + "_tmp", PYTHONHASHSEED="0")
        os.makedirs(wt + "_tmp", exist_ok=True)
        rc0, out0 = sh("/venv/bin/python %s" % demo, cwd=wt, env=env)
        meta["demo_clean_exit"] = rc0
        rc, out = sh("git apply %s" % patch, cwd=wt)
        if rc != 0:
            print("PATCH DOES NOT APPLY:\n" + out)
            return 2
        touched_c = any(l.startswith("+++") and l.strip().endswith((".c", ".h")) for l in open(patch))
        if touched_c:
            sh("rm -rf build; /venv/bin/python setup.py build_ext --inplace", cwd=wt)
        shutil.rmtree(wt + "_tmp", ignore_errors=True)
        os.makedirs(wt + "_tmp", exist_ok=True)
        rc1, out1 = sh("/venv/bin/python %s" % demo, cwd=wt, env=env)
        meta["demo_patched_exit"] = rc1
        rct, outt = sh("/venv/bin/python -m pytest -q -p no:cacheprovider --timeout=900 test/arch/mep 2>&1 | tail -3", cwd=wt, env=env)
        meta["suite_tail"] = outt.strip().splitlines()[-1] if outt.strip() else ""
        suite_ok = " passed" in meta["suite_tail"] and "failed" not in meta["suite_tail"]
        print("demo clean exit=%d, patched exit=%d; suite: %s" % (rc0, rc1, meta["suite_tail"]))
        valid = rc0 == 0 and rc1 != 0 and suite_ok
        meta["valid_seed"] = valid
        results = {}
        for c in checks:
            t0 = time.time()
            cenv = dict(os.environ, VERIF_REPO=wt, VERIF_EVIDENCE_DIR=wt + "_tmp/evidence",
                        VERIF_REPLAY_DIR=wt + "_tmp/replays", VERIF_TIER=tier)
            rc, out = sh("%s/check %s %s" % (HOME, c, tier), env=cenv, timeout=7200)
            lines = [l for l in out.splitlines() if l.startswith(("VIOLATION", "  class=", "HARNESS", "DONE", "KNOWN"))]
            caught = rc == 1
            results[c] = {"exit": rc, "caught": caught, "wall_s": round(time.time() - t0, 1),
                          "lines": [l[:300] for l in lines[:8]]}
            print("check %s %s: %s (exit %d, %.0fs)" % (c, tier, "CAUGHT" if caught else "MISSED", rc, time.time() - t0))
            for l in lines[:6]:
                print("   " + l[:260])
        meta["checks"] = results
        meta["ran"] = ["demo on clean worktree", "git apply patch.diff; rebuild C extensions if touched; demo",
                       "pytest test/arch/mep (280 tests) with the patch",
                       "VERIF_REPO=<worktree> ./check <id> %s" % tier]
        if valid:
            dst = os.path.join(HOME, "seeded", name)
            os.makedirs(dst, exist_ok=True)
            shutil.copy(patch, os.path.join(dst, "patch.diff"))
            shutil.copy(demo, os.path.join(dst, "demo.py"))
            notes = os.path.join(src, "notes.md")
            if os.path.exists(notes):
                shutil.copy(notes, os.path.join(dst, "notes.md"))
                meta["needs_to_manifest"] = open(notes).read()[:1500]
            old = {}
            mp = os.path.join(dst, "meta.json")
            if os.path.exists(mp):
                old = json.load(open(mp))
                oldc = old.get("checks", {})
                oldc.update(meta["checks"])
                meta["checks"] = oldc
            with open(mp, "w") as fd:
                json.dump(meta, fd, indent=1)
            print("stored in", dst)
        else:
            print("NOT A VALID SEED (demo/suite conditions not met)")
        return 0
    finally:
        sh("git -C /repo worktree remove --force %s" % wt)
        shutil.rmtree(wt, ignore_errors=True)
        shutil.rmtree(wt + "_tmp", ignore_errors=True)


sys.exit(main())
