#!/venv/bin/python
"""Pre-assemble the statement vocabulary of the x86_32 workload generator so
that checks do not spend their budget in the assembler (workload generation,
not code under test).  Writes simkit/asmcache_x86_32.json."""
import json
import os
import random
import sys
os.environ.setdefault("PYTHONHASHSEED", "0")
HERE = os.path.dirname(os.path.dirname(os.path.abspath(__file__)))
sys.path.insert(0, HERE)
sys.path.insert(0, os.environ.get("VERIF_REPO", "/repo"))
import warnings
warnings.filterwarnings("ignore")
from simkit import a_sim

n = int(sys.argv[1]) if len(sys.argv) > 1 else 3000
archs = sys.argv[2].split(",") if len(sys.argv) > 2 else ["x86_32", "x86_64", "arml", "mips32l", "aarch64l"]
feats = ["mem", "straddle", "stack", "call", "loop", "branch", "rep", "indirect", "smc", "ro", "multi", "exc", "exotic"]
for arch in archs:
    rng = random.Random(12345)
    sa = a_sim.statement_assembler(arch)
    ok = 0
    for i in range(n):
        feat = set(f for f in feats if rng.random() < 0.6)
        if arch != "x86_32":
            feat -= {"rep", "indirect", "smc"}
        lines = a_sim.gen_program(arch, rng, feat)
        try:
            a_sim.Program(arch, lines)
            ok += 1
        except a_sim.Discard as d:
            pass
    with open(a_sim.asm_cache_file(arch), "w") as fd:
        json.dump({k: v.hex() for k, v in sorted(sa.cache.items())}, fd, indent=0)
    print(arch, "programs ok", ok, "of", n, "statements cached", len(sa.cache), "new", len(sa.new))
