#!/venv/bin/python
"""Generate /verif/MANIFEST.json from the table below (single source of truth)."""
import json
import os
import sys

HERE = os.path.dirname(os.path.dirname(os.path.abspath(__file__)))

NA = {
    "C01": "pure function of the expression: no schedule, fault, clock or history for a simulator to control",
    "C02": "pure function of the expression (fixed point of a deterministic rewriter); nothing to schedule or fault",
    "C03": "pure function of operator and constant operands",
    "C04": "pure function of expression and operand values; oracle is compiled C, not a simulated history",
    "C05": "pure function of expression and valuation; needs z3, which is not in the repo's interpreter",
    "C06": "pure function of the expression (SMT-LIB text)",
    "C07": "pure function of expression and operand values",
    "C08": "value semantics of immutable interned expressions; the intern table holds strong references, no GC or ordering dimension",
    "C09": "pure function of the expression",
    "C10": "pure function of the expression and operand ranges",
    "C11": "pure function of pattern and expression",
    "C12": "pure function of IR and initial symbolic state",
    "C14": "pure function of instruction bytes",
    "C15": "pure function of instruction bytes / operands",
    "C16": "pure function of instruction bytes",
    "C17": "pure function of instruction bytes; oracle is an external disassembler",
    "C18": "pure function of instruction and state; oracle is the physical CPU, outside any simulator",
    "C19": "pure function of instruction and state; no reference emulator in the sandbox",
    "C26": "pure value semantics of interval sets",
    "C27": "pure function of the graph",
    "C32": "pure function of the assembled program (layout fixed point)",
    "C34": "pure function of type description and values",
    "C35": "pure function of the C declarations; oracle is gcc",
    "C36": "pure function of IR graph and initial state",
    "C37": "pure function of IR graph and initial state",
    "C38": "pure function of the IR graph",
    "C39": "pure function of IR graph and input",
    "C40": "pure function of IR graph and initial state",
    "C41": "pure function of program and input; needs z3",
    "C42": "pure function of the generated image; no truncated/corrupt-file clause for a fault injector",
    "C43": "pure function of the file bytes",
    "C44": "pure function of the image",
    "C47": "pure function of the stub arguments",
}

NOT_BUILT = "check not built yet in this tree (planned, see DESIGN.md section 2); not claimed until it exists"

# pid -> (engine, technique, level text, level note, design ref)
CLAIMED = {
    "C29": ("simB", "seeded operation-history simulation vs reference model, ddmin + replay",
            "Seeded sampling of BoundedDict operation histories (set/get/in/del/clear/destruction, raising callback as fault) "
            "against a dict + use-counter + callback-ledger model; every step judged; failures minimised and replayed in a fresh process. "
            "Sampling, not proof: a clean batch is evidence.",
            "Trusted: the reference model in simkit/b_c29.py; 'most used' judged only where lifetime and since-resize counts agree.",
            "5 (C29)"),
    "C33": ("simB", "seeded operation-history simulation vs reference model, ddmin + replay",
            "Seeded sampling of StrPatchwork histories (index/slice reads at and past the end, writes that grow the buffer, appends, "
            "searches right after mutations) against a bytearray+padding model; content compared after every step.",
            "Trusted: the bytearray model; non-negative indices; slice writes of the slice's length or open-ended.",
            "5 (C33)"),
    "C28": ("simB", "seeded operation-history simulation vs reference model, ddmin + replay",
            "Seeded sampling of LocationDB API histories over tiny name/offset pools (so that rejections and collisions dominate), "
            "including merge with a second seeded database; relational model compared through every getter after every call, "
            "rejected calls must leave all getters unchanged.",
            "Trusted: relational model and the order-independent merge-conflict analysis in simkit/b_c28.py; state after a merge that "
            "raises on conflicting databases is only required to be consistent.",
            "5 (C28)"),
    "C30": ("simB", "seeded operation-history simulation vs reference model, ddmin + replay",
            "Seeded sampling of AsmCFG mutation histories (add/del block, add/del edge, merge, raw bto mutation + rebuild_edges) with "
            "self-loops, duplicate constraints and several block objects per LocKey; edges, labels, successors and pendings recomputed "
            "from the model after every step.",
            "Trusted: constraint-set model; add_edge/del_edge between present blocks; duplicate constraints share one kind.",
            "5 (C30)"),
    "C45": ("simB", "seeded operation-history simulation vs reference model, ddmin + replay",
            "Seeded sampling of import-registration histories (library name variants, names and ordinals, bulk registrations reaching "
            "hundreds of imports per library, unknown bases as fault) against an injective-map model; stability, injectivity and the "
            "reverse tables are checked at every registration and again over the whole history at the end.",
            "Trusted: dict model; library names compare case-insensitively with a default .dll extension (loader convention).",
            "5 (C45)"),
    "C13": ("simB", "seeded operation-history simulation vs reference model, ddmin + replay",
            "Seeded sampling of symbolic-memory histories (overlapping writes of 8-64 bits around offset 0 modulo 2^n, reads, deletions, "
            "state export/import into a fresh engine as restart fault, copies) judged byte by byte through a concrete valuation applied by "
            "an evaluator independent of miasm's simplifier.",
            "Trusted: per-base byte-map model and the small expression evaluator in simkit/b_c13.py; two address sizes (32/64).",
            "5 (C13)"),
    "C25": ("simB", "seeded operation-history simulation vs reference model with I/O faults, ddmin + replay",
            "Seeded sampling of read/cursor/atomic-mode/decode histories on str, file, PE and VmMngr-backed streams with reads placed at "
            "segment edges and holes that appear and disappear; every read, including every read the real decoders issue in atomic mode, "
            "is compared with a byte-segment model; out-of-source reads must raise IOError and nothing else.",
            "Trusted: byte-segment model; PE gaps/headers and ELF containers are not judged (see DESIGN).",
            "5 (C25)"),
    "C24": ("simB", "seeded operation/fault-history simulation of the real C memory manager vs reference model, ddmin + replay",
            "Seeded sampling of VmMngr histories over a tiny address space (adjacent, overlapping and zero-sized pages, permission flips, "
            "host and emulated accesses of every width incl. page-straddling ones, memory breakpoints, access-log resets) on the C extension "
            "built from the tree; page content, permissions, lookup of every address, fault flags, breakpoint flag and recorded access sets "
            "are compared with a model after every step.",
            "Trusted: page/byte model; narrow counted relaxations after failed host calls and faulted accesses (see DESIGN 5, C24).",
            "5 (C24)"),
    "C48": ("simB", "seeded allocation/fault-history simulation on the real allocators and VmMngr vs interval model, ddmin + replay",
            "Seeded sampling of allocation histories per emulated OS (Windows: process heap, 7 allocation stubs called on a real x86 Jitter, "
            "VirtualAlloc with hints; Linux: mmap anonymous/file/hinted/fixed, brk) with zero sizes, frees and foreign pages placed in the "
            "allocators' way on a real VmMngr; every returned region is checked mapped, disjoint from live allocations and foreign pages, "
            "and at a fresh address.",
            "Trusted: interval model; VirtualAlloc on the start of an existing page is a re-commit and is not judged; two recorded open "
            "findings (brk collision, zero-length mmap) are steered around in all but every 50th run.",
            "5 (C48)"),
    "C46": ("simB", "seeded guest-operation/adversary-history simulation with an os-level monitor, ddmin + replay",
            "Seeded sampling of guest path operations (resolve/open/exists/readlink/stat/lstat; str and bytes; '.', '..', repeated "
            "separators) interleaved with an adversary that re-arranges symlinks inside the sandbox (final and directory links, chains, "
            "relative targets with '..', absolute targets), monitored at the os seam: every host path returned or touched must resolve, "
            "as the kernel resolves it, under the sandbox base; canary bytes must never be read back; the Windows/POSIX mappers are "
            "checked on the same path grammar, and the emulated Windows API (CreateFileA/W, GetFileSize[Ex], ReadFile, fopen/_wfopen, "
            "PathIsDirectoryW, called on an x86_32 Jitter) is an actor whose every host open/stat must stay under file_sb.",
            "Trusted: the recording os proxy and realpath() of the host kernel as ground truth; private scratch tree per run.",
            "5 (C46)"),
    "C31": ("simB", "seeded work-list-order simulation of recursive disassembly through a guarded seam, structural oracle from single-instruction decodes; ddmin + replay",
            "The processing order of disasmEngine.apply_splitting's work list (a set of identity-hashed blocks, different in every process) is "
            "put under the seeded scheduler through the guarded seam asmblock._verif_pick_block (MIASM_VERIF=1). Seeded buffers (structured "
            "x86 programs, byte-flipped programs, random bytes for 7 architectures), start offsets and engine options; the resulting graph is "
            "checked against invariants computed from fresh single-instruction decodes (consecutive and equal instructions, no overlap, "
            "branch targets start blocks, successors, options honoured, merging keeps instruction-level paths) and must be identical under a "
            "second work-list order.",
            "Trusted: single-instruction decoding as ground truth; stated relaxations for blocks cut by limits and for delay slots; "
            "one hook commit in /repo (add-only, guarded).",
            "6 and 13.7 (C31)"),
    "C21": ("simA", "seeded schedule search over block partitioning / quantum / cache / restart, judged against a single-step reference; ddmin + replay",
            "Seeded sampling of (program, schedule) pairs on the real python and gcc jitters: block length, per-call limit, cache-size "
            "limit, warm start, mid-run option changes, cache clears, stop/resume and warm/cold restarts; at every control point the full "
            "machine state (pc, registers, all memory) must lie on the path of the single-step reference, in order, and the run must end in "
            "the reference's final state.",
            "Trusted: the reference is miasm's python backend in its most conservative schedule (1 instruction per block, cold cache); "
            "x86_32 workload; python and gcc backends only (no llvmlite).",
            "4 (C21)"),
    "C23": ("simA", "seeded debugger-action histories at control points, expected hits computed from the reference pc sequence; ddmin + replay",
            "Seeded sampling of breakpoint histories (add/set/remove by address/by callback, from inside callbacks, mid-block addresses of "
            "already translated blocks, never-reached addresses, callbacks that stop the run) interleaved with partition changes; the "
            "invocation log must equal the expectation computed by walking the reference pc sequence with the debugger's actions replayed "
            "at their ticks; stops must leave pc on the breakpoint address.",
            "Trusted: reference pc sequence; a callback (un)registered while the guest stands on that address is accepted either way for "
            "that one arrival.",
            "4 (C23)"),
    "C22": ("simA", "seeded self-modifying programs and host writes racing the translator, judged against a cache-clearing reference; ddmin + replay",
            "Seeded sampling of self-modifying programs (guest stores into immediates of already translated code cells before, between and "
            "inside loops) and host writes (vm.set_mem on code and data at seeded control points), under all partition knobs, on both "
            "backends; the reference clears its translation cache before every instruction and replays host writes at their stamped states.",
            "Trusted: reference with per-step cache clearing; host writes are stamped by full-state digest (ambiguous stamps are discarded).",
            "4 (C22)"),
    "C49": ("simA", "seeded fault injection (unmap / permission flip) at control points with heal-and-resume, judged against the fault-free reference; ddmin + replay",
            "Seeded sampling of fault schedules: data and stack pages are unmapped or lose R/W at seeded control points (aimed at memory the "
            "program is about to touch, incl. the second page of straddling accesses); at the fault stop the fault flag must be pending, pc on "
            "the faulting instruction and the whole state equal to the reference state before that instruction; after healing the run must "
            "complete on the reference path.",
            "Trusted: fault-free reference; REP string instructions are excluded from faulted programs (no per-iteration reference states).",
            "4 (C49)"),
    "C20": ("simA", "seeded replica comparison: python and gcc backends under one schedule with faults and breakpoints; ddmin + replay",
            "Every seeded case (program, initial state, schedule with tuner, debugger and fault-injector actions, healed and terminal "
            "faults) runs on the python and on the gcc backend with one block per call so that control points coincide; each replica is "
            "judged against the reference and the two are compared directly (final state digest, code- and memory-breakpoint hit sequences). "
            "Guests: x86_32, x86_64, ARM and MIPS in both byte orders, AArch64; software exceptions served by host handlers; 30% of the "
            "cases are operator sweeps (uncommon integer instructions over edge-case values, straight line, both backends).",
            "Trusted: as C21; LLVM backend cannot run here (no llvmlite) - the claim covers python and gcc; MIPS guests are compared "
            "replica against replica only.",
            "4 (C20)"),
}


def main():
    props = [json.loads(l) for l in open(os.path.join(HERE, "properties.jsonl"))]
    checks = []
    na = []
    for p in props:
        pid = p["id"]
        if pid in CLAIMED:
            engine, technique, text, note, ref = CLAIMED[pid]
            checks.append({
                "property_id": pid,
                "quick_cmd": "./check %s quick" % pid,
                "thorough_cmd": "./check %s thorough" % pid,
                "evidence_file": "/verif/evidence/%s.json" % pid,
                "replay_cmd_template": "./check %s --replay {path}" % pid,
                "engine": engine,
                "level_claimed": {"category": "exploration", "text": text, "design_ref": "DESIGN.md section " + ref},
                "level_note": note,
                "technique": "deterministic simulation with fault injection: " + technique,
            })
        elif pid in NA:
            na.append({"property_id": pid, "reason": NA[pid]})
        else:
            na.append({"property_id": pid, "reason": NOT_BUILT})
    hooks_commits = []
    try:
        hooks_commits = [l.strip() for l in open(os.path.join(HERE, "hooks_commits.txt")) if l.strip()]
    except IOError:
        pass
    manifest = {
        "version": 1,
        "setup_cmd": "./setup.sh",
        "hooks": {
            "guard": "MIASM_VERIF",
            "enable": "environment variable MIASM_VERIF=1 set by ./check for the machines that need a hook; no build flag",
            "baseline_off_cmd": "cd /repo && env -u MIASM_VERIF /venv/bin/python -m pytest -ra -q -p no:cacheprovider --timeout=900 --continue-on-collection-errors",
            "source_commits": hooks_commits,
            "add_only": True,
        },
        "engines": [
            {"name": "simA", "path": "simkit/a_sim.py",
             "serves_properties": [c["property_id"] for c in checks if c["engine"] == "simA"],
             "kind_free_text": "guest-machine simulator: real Jitter backends under a seeded scheduler of host actors (debugger, tuner, host writer, fault injector, restarter) with a single-step reference execution"},
            {"name": "simB", "path": "simkit/opmachine.py",
             "serves_properties": [c["property_id"] for c in checks if c["engine"] == "simB"],
             "kind_free_text": "seeded operation/fault histories on the real object vs an executable reference model, invariant after every step, ddmin, replay"},
        ],
        "checks": checks,
        "not_applicable": na,
        "notes": "Technique family: deterministic simulation with fault injection only. See DESIGN.md; known_findings.json lists fixed and open findings.",
    }
    with open(os.path.join(HERE, "MANIFEST.json"), "w") as fd:
        json.dump(manifest, fd, indent=1)
    print("claimed %d, not_applicable %d" % (len(checks), len(na)))


main()
