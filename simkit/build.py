"""Build miasm's C extensions from the working tree of $VERIF_REPO into
/verif/.build/<digest of the C sources>/ and make `import miasm.jitter.*`
load them instead of the (git-ignored, possibly stale) in-tree .so files.

Also gives every check process a private temporary directory so that the GCC
backend's on-disk cache of compiled blocks (keyed by block bytes only) never
leaks between trees or runs.
"""
from __future__ import print_function

import atexit
import glob
import hashlib
import os
import shutil
import subprocess
import sys
import sysconfig
import tempfile
from concurrent.futures import ThreadPoolExecutor

VERIF_DIR = os.path.dirname(os.path.dirname(os.path.abspath(__file__)))
REPO = os.environ.get("VERIF_REPO", "/repo")
BUILD_ROOT = os.path.join(VERIF_DIR, ".build")

COMMON = ["JitCore.c", "vm_mngr.c", "vm_mngr_py.c", "op_semantics.c", "bn.c"]
ARCHS = ["x86", "arm", "aarch64", "msp430", "mips32", "ppc32", "mep"]
EXT = sysconfig.get_config_var("EXT_SUFFIX")


def _sources_digest(jdir):
    h = hashlib.sha256()
    files = sorted(glob.glob(os.path.join(jdir, "*.[ch]")) + glob.glob(os.path.join(jdir, "arch", "*.[ch]")))
    for f in files:
        h.update(os.path.relpath(f, jdir).encode())
        with open(f, "rb") as fd:
            h.update(fd.read())
    h.update(sys.version.encode())
    return h.hexdigest()[:24]


def _cc(args):
    p = subprocess.run(args, stdout=subprocess.PIPE, stderr=subprocess.STDOUT)
    if p.returncode != 0:
        raise RuntimeError("compile failed: %s\n%s" % (" ".join(args), p.stdout.decode(errors="replace")[-3000:]))


def build(archs=None, verbose=False):
    """Return the build directory (contains jitter/ and jitter/arch/)."""
    jdir = os.path.join(REPO, "miasm", "jitter")
    digest = _sources_digest(jdir)
    out = os.path.join(BUILD_ROOT, digest)
    jout = os.path.join(out, "jitter")
    aout = os.path.join(jout, "arch")
    archs = archs or ARCHS
    wanted = [os.path.join(jout, "VmMngr" + EXT), os.path.join(jout, "Jitgcc" + EXT)] + \
        [os.path.join(aout, "JitCore_%s%s" % (a, EXT)) for a in archs]
    if all(os.path.exists(w) for w in wanted):
        return out
    os.makedirs(aout, exist_ok=True)
    # drop older digests (disk is limited)
    import time
    for other in glob.glob(os.path.join(BUILD_ROOT, "*")):
        try:
            old = time.time() - os.path.getmtime(other) > 6 * 3600
        except OSError:
            continue
        if os.path.basename(other) != digest and old:
            shutil.rmtree(other, ignore_errors=True)
    cflags = (sysconfig.get_config_var("CFLAGS") or "-O2 -DNDEBUG").split()
    if "-DNDEBUG" not in cflags:
        cflags.append("-DNDEBUG")
    inc = ["-I" + sysconfig.get_paths()["include"], "-I" + jdir]
    objdir = os.path.join(out, "obj")
    os.makedirs(objdir, exist_ok=True)
    cc = os.environ.get("CC", "cc")

    def obj(src):
        o = os.path.join(objdir, src.replace("/", "_") + ".o")
        if not os.path.exists(o):
            _cc([cc] + cflags + ["-fPIC", "-w"] + inc + ["-c", os.path.join(jdir, src), "-o", o + ".tmp.o"])
            os.rename(o + ".tmp.o", o)
        return o

    srcs = set(COMMON + ["Jitgcc.c"])
    for a in archs:
        srcs.add("arch/JitCore_%s.c" % a)
    with ThreadPoolExecutor(max_workers=16) as ex:
        objs = dict(zip(sorted(srcs), ex.map(obj, sorted(srcs))))

    def link(target, names):
        if not os.path.exists(target):
            _cc([cc, "-shared"] + [objs[n] for n in names] + ["-o", target + ".tmp"])
            os.rename(target + ".tmp", target)

    link(wanted[0], ["vm_mngr.c", "vm_mngr_py.c", "bn.c"])
    link(wanted[1], ["Jitgcc.c", "bn.c"])
    for a in archs:
        common = COMMON if a != "mep" else [c for c in COMMON if c != "op_semantics.c"]
        link(os.path.join(aout, "JitCore_%s%s" % (a, EXT)), common + ["arch/JitCore_%s.c" % a])
    if verbose:
        print("built C extensions in", out)
    return out


_ACTIVE = {}


def activate(archs=None):
    """Build if needed, then make miasm load the fresh extensions.  Must be
    called before anything imports miasm.jitter.VmMngr / JitCore_*."""
    if "dir" in _ACTIVE:
        return _ACTIVE["dir"]
    out = build(archs)
    if REPO not in sys.path:
        sys.path.insert(0, REPO)
    import miasm.jitter
    import miasm.jitter.arch
    for mod, sub in ((miasm.jitter, "jitter"), (miasm.jitter.arch, os.path.join("jitter", "arch"))):
        path = os.path.join(out, sub)
        if path not in mod.__path__:
            mod.__path__.insert(0, path)
    for name in list(sys.modules):
        if name.startswith("miasm.jitter.") and name.split(".")[-1].startswith(("VmMngr", "JitCore_", "Jitgcc")):
            raise RuntimeError("%s was imported before build.activate()" % name)
    _ACTIVE["dir"] = out
    private_tmp()
    return out


def libs_for(arch_name):
    out = _ACTIVE["dir"]
    return [os.path.join(out, "jitter", "VmMngr" + EXT),
            os.path.join(out, "jitter", "arch", "JitCore_%s%s" % (arch_name, EXT))]


def private_tmp():
    """Private tempfile.tempdir for this process tree (gcc block cache)."""
    if "tmp" in _ACTIVE:
        return _ACTIVE["tmp"]
    os.makedirs(BUILD_ROOT, exist_ok=True)
    d = tempfile.mkdtemp(prefix="tmp", dir=BUILD_ROOT)
    tempfile.tempdir = d
    os.environ["TMPDIR"] = d
    _ACTIVE["tmp"] = d
    owner = os.getpid()

    def cleanup():
        if os.getpid() == owner:
            shutil.rmtree(d, ignore_errors=True)
    atexit.register(cleanup)
    return d


if __name__ == "__main__":
    print(build(verbose=True))
