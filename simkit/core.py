"""Common engine of the deterministic simulation machinery.

One integer (VERIF_SEED) decides everything: it is expanded by SHA-256 into
per-run seeds; every run builds its own random.Random from its seed and draws
the swarm configuration, the workload, the schedule and the faults from it.
A run is (cfg, actions), both JSON; replay executes the recorded case, it does
not re-derive it from the seed.

No real clock is read for any decision that influences a run.  Wall-clock time
is only used to (a) stop *launching* runs when the batch budget is spent and
(b) detect a hung child; a hang is reported as a violation only if the replay
of its case hangs again.
"""
from __future__ import print_function

import errno
import faulthandler
import hashlib
import json
import os
import random
import select
import signal
import subprocess
import sys
import time
import traceback

VERIF_DIR = os.path.dirname(os.path.dirname(os.path.abspath(__file__)))
REPO = os.environ.get("VERIF_REPO", "/repo")
REPLAY_DIR = os.environ.get("VERIF_REPLAY_DIR") or os.path.join(VERIF_DIR, "replays")
EVIDENCE_DIR = os.environ.get("VERIF_EVIDENCE_DIR") or os.path.join(VERIF_DIR, "evidence")
KNOWN_FILE = os.path.join(VERIF_DIR, "known_findings.json")
LOG_DIR = os.path.join(VERIF_DIR, "logs")


def derive(seed, *labels):
    """Derive a 64-bit sub-seed from @seed and @labels (SHA-256)."""
    h = hashlib.sha256(("%d/%s" % (seed, "/".join(str(l) for l in labels))).encode())
    return int.from_bytes(h.digest()[:8], "big")


def substreams(seed, names):
    """Independent PRNG streams, one per name, all functions of @seed."""
    return {n: random.Random(derive(seed, "stream", n)) for n in names}


def sha1_hex(data):
    if isinstance(data, str):
        data = data.encode()
    return hashlib.sha1(data).hexdigest()


class Violation(Exception):
    """Raised by an oracle.  @cls is the violation class (an enum per
    property), @facts the discriminating facts used to match known findings."""

    def __init__(self, cls, detail, facts=None):
        Exception.__init__(self, "%s: %s" % (cls, detail))
        self.cls = cls
        self.detail = detail
        self.facts = facts or {}

    def as_dict(self, step=None):
        return {"cls": self.cls, "detail": self.detail, "facts": self.facts,
                "step": step}


class EventLog(object):
    """Event log of one run.  Only deterministic facts go in (no time, no
    object ids).  Its digest is what the determinism self-test compares."""

    def __init__(self, keep=False):
        self.h = hashlib.sha1()
        self.n = 0
        self.keep = keep
        self.lines = []

    def add(self, *parts):
        line = " ".join(str(p) for p in parts)
        self.h.update(line.encode("utf-8", "backslashreplace"))
        self.h.update(b"\n")
        self.n += 1
        if self.keep:
            self.lines.append(line)

    def digest(self):
        return self.h.hexdigest()


class Machine(object):
    """Interface of a simulation machine (one per property)."""

    pid = None
    title = ""
    rule = ""
    real_components = []
    stub_components = []
    assumptions = []
    # per-run caps
    chunk = 50            # runs per forked child
    run_timeout = 240.0   # wall seconds without progress before a child is declared hung
    quick_runs = 2000
    thorough_runs = 40000
    selftest_runs = 32
    needs_build = False

    def setup(self):
        """Called once in the parent before any fork (imports, builds)."""

    def gen(self, rng, steer):
        """Return a JSON-able case {'cfg':..., 'actions': [...]}.
        @steer: avoid shapes listed as known findings."""
        raise NotImplementedError

    def run(self, case, keep_log=False):
        """Execute a case.  Return dict: viol (None or Violation.as_dict()),
        digest, ops, probes {name:int}, nontrivial bool, log (if keep_log)."""
        raise NotImplementedError

    def simplify_action(self, action):
        """Yield simpler variants of one action."""
        return ()

    def simplify_cfg(self, cfg):
        """Yield simpler variants of the configuration."""
        return ()


# ---------------------------------------------------------------------------
# known findings

def load_known(pid):
    try:
        with open(KNOWN_FILE) as fd:
            data = json.load(fd)
    except IOError:
        return []
    return [e for e in data.get("findings", []) if e.get("property") == pid]


def _fact_match(value, want):
    if isinstance(want, list):
        return value in want
    return value == want


def match_known(viol, known):
    """Return the known-finding entry matching @viol or None."""
    if viol is None:
        return None
    for entry in known:
        if entry.get("class") != viol["cls"]:
            continue
        facts = viol.get("facts") or {}
        ok = True
        for key, want in entry.get("match", {}).items():
            if key not in facts or not _fact_match(facts[key], want):
                ok = False
                break
        if ok:
            return entry
    return None


# ---------------------------------------------------------------------------
# running one case in a forked child (used by shrinking and replay)

def _child_setup(timeout):
    faulthandler.enable()
    if timeout:
        faulthandler.dump_traceback_later(timeout + 5, exit=True)


def run_case_isolated(machine, case, timeout=None, keep_log=False):
    """Execute @case in a forked child.  Returns the run result dict; a dead
    child gives viol class '<pid>/crash', a hung one '<pid>/hang'."""
    timeout = timeout or machine.run_timeout
    rfd, wfd = os.pipe()
    sys.stdout.flush()
    sys.stderr.flush()
    pid = os.fork()
    if pid == 0:
        os.close(rfd)
        code = 0
        try:
            _redirect_child_stderr(machine.pid)
            _child_setup(timeout)
            res = safe_run(machine, case, keep_log)
            with os.fdopen(wfd, "w") as out:
                json.dump(res, out)
        except BaseException:
            traceback.print_exc()
            code = 3
        finally:
            os._exit(code)
    os.close(wfd)
    data = b""
    deadline = time.time() + timeout
    hung = False
    while True:
        left = deadline - time.time()
        if left <= 0:
            hung = True
            break
        r, _, _ = select.select([rfd], [], [], left)
        if not r:
            continue
        chunk = os.read(rfd, 1 << 16)
        if not chunk:
            break
        data += chunk
    os.close(rfd)
    if hung:
        try:
            os.kill(pid, signal.SIGKILL)
        except OSError:
            pass
    _, status = os.waitpid(pid, 0)
    if hung:
        return crash_result(machine, "hang", "no result within %ds" % timeout)
    try:
        return json.loads(data.decode())
    except ValueError:
        return crash_result(machine, "crash", "child died, wait status %d" % status)


def crash_result(machine, kind, detail):
    return {"viol": {"cls": "%s/%s" % (machine.pid, kind), "detail": detail,
                     "facts": {}, "step": None},
            "digest": None, "ops": 0, "probes": {}, "nontrivial": False}


def safe_run(machine, case, keep_log=False):
    """machine.run with harness errors classified apart from violations."""
    try:
        return machine.run(case, keep_log=keep_log)
    except Violation as v:  # a machine may let it escape
        return {"viol": v.as_dict(), "digest": None, "ops": 0, "probes": {},
                "nontrivial": False}
    except BaseException:
        return {"viol": None, "harness_error": traceback.format_exc(),
                "digest": None, "ops": 0, "probes": {}, "nontrivial": False}


def _redirect_child_stderr(pid):
    """C code of miasm is chatty on stderr/stdout; keep the check's stdout
    clean: children write to a log file."""
    try:
        os.makedirs(LOG_DIR, exist_ok=True)
        fd = os.open(os.path.join(LOG_DIR, "%s.children.log" % pid),
                     os.O_WRONLY | os.O_CREAT | os.O_APPEND, 0o644)
        os.dup2(fd, 2)
        os.dup2(fd, 1)
        os.close(fd)
    except OSError:
        pass


# ---------------------------------------------------------------------------
# batch runner

class Batch(object):
    """Run indices [0, n) of master seed @seed on @jobs forked children."""

    def __init__(self, machine, seed, n, jobs, budget_s=None, want_cases=3,
                 unsteered_every=0):
        self.m = machine
        self.seed = seed
        self.n = n
        self.jobs = jobs
        self.budget_s = budget_s
        self.results = {}
        self.want_cases = want_cases
        if unsteered_every and os.environ.get("VERIF_UNSTEERED"):
            unsteered_every = 1          # every run unsteered: used to regenerate the replays of open findings
        self.unsteered_every = unsteered_every
        self.harness_errors = []
        self.skipped = 0

    def steer_for(self, i):
        # A fixed handful of runs per batch re-confirm the known findings.
        # Steering only exists to look past open known findings.
        if not self.unsteered_every:
            return False
        if i % self.unsteered_every == self.unsteered_every - 1:
            return False
        return True

    def make_case(self, i):
        s = derive(self.seed, "run", i)
        rng = random.Random(s)
        case = self.m.gen(rng, self.steer_for(i))
        case["seed"] = s
        case["index"] = i
        return case

    def _child(self, indices, wfd):
        out = os.fdopen(wfd, "w")
        for i in indices:
            out.write(json.dumps({"start": i}) + "\n")
            out.flush()
            case = self.make_case(i)
            res = safe_run(self.m, case)
            rec = {"i": i, "seed": case["seed"], "viol": res.get("viol"),
                   "digest": res.get("digest"), "ops": res.get("ops", 0),
                   "probes": res.get("probes", {}),
                   "nontrivial": res.get("nontrivial", False),
                   "ticks": res.get("ticks", 0)}
            if res.get("harness_error"):
                rec["harness_error"] = res["harness_error"]
            if res.get("viol") or i < self.want_cases:
                rec["case"] = case
            out.write(json.dumps(rec) + "\n")
            out.flush()
        out.close()

    def run(self):
        m = self.m
        chunks = []
        idx = list(range(self.n))
        for k in range(0, self.n, m.chunk):
            chunks.append(idx[k:k + m.chunk])
        chunks.reverse()
        live = {}   # rfd -> dict(pid, buf, indices, current, last)
        t0 = time.time()
        sys.stdout.flush()
        sys.stderr.flush()
        while chunks or live:
            while chunks and len(live) < self.jobs:
                if self.budget_s is not None and time.time() - t0 > self.budget_s:
                    self.skipped += sum(len(c) for c in chunks)
                    chunks = []
                    break
                indices = chunks.pop()
                rfd, wfd = os.pipe()
                pid = os.fork()
                if pid == 0:
                    code = 0
                    try:
                        os.close(rfd)
                        for other in live:
                            os.close(other)
                        _redirect_child_stderr(m.pid)
                        _child_setup(int(m.run_timeout * len(indices)) + 30)
                        self._child(indices, wfd)
                    except BaseException:
                        traceback.print_exc()
                        code = 3
                    finally:
                        os._exit(code)
                os.close(wfd)
                live[rfd] = {"pid": pid, "buf": b"", "indices": indices,
                             "current": None, "done": set(), "last": time.time()}
            if not live:
                break
            ready, _, _ = select.select(list(live), [], [], 1.0)
            now = time.time()
            for rfd in list(live):
                st = live[rfd]
                if rfd in ready:
                    data = os.read(rfd, 1 << 16)
                    if data:
                        st["buf"] += data
                        st["last"] = now
                        while b"\n" in st["buf"]:
                            line, st["buf"] = st["buf"].split(b"\n", 1)
                            rec = json.loads(line.decode())
                            if "start" in rec:
                                st["current"] = rec["start"]
                            else:
                                self.results[rec["i"]] = rec
                                st["done"].add(rec["i"])
                                st["current"] = None
                                if rec.get("harness_error"):
                                    self.harness_errors.append(rec)
                        continue
                    # EOF
                    os.close(rfd)
                    _, status = os.waitpid(st["pid"], 0)
                    del live[rfd]
                    self._finish_chunk(st, "crash", "child died, wait status %d" % status, chunks)
                elif now - st["last"] > m.run_timeout:
                    try:
                        os.kill(st["pid"], signal.SIGKILL)
                    except OSError:
                        pass
                    os.close(rfd)
                    os.waitpid(st["pid"], 0)
                    del live[rfd]
                    self._finish_chunk(st, "hang", "no progress for %ds" % m.run_timeout, chunks)
        self.wall = time.time() - t0
        return self.results

    def _finish_chunk(self, st, kind, detail, chunks):
        left = [i for i in st["indices"] if i not in st["done"]]
        if not left:
            return
        cur = st["current"]
        if cur is None:
            cur = left[0]
        # the run in flight when the child died is the culprit
        case = self.make_case(cur)
        res = crash_result(self.m, kind, detail)
        self.results[cur] = {"i": cur, "seed": case["seed"], "viol": res["viol"],
                             "digest": None, "ops": 0, "probes": {},
                             "nontrivial": False, "case": case}
        rest = [i for i in left if i != cur]
        if rest:
            chunks.append(rest)


# ---------------------------------------------------------------------------
# shrinking (delta debugging over the action list, then arguments, then cfg)

class Shrinker(object):
    def __init__(self, machine, case, viol, known, max_evals=600):
        self.m = machine
        self.case = case
        self.viol = viol
        self.known = known
        self.entry = match_known(viol, known)
        self.evals = 0
        self.max_evals = max_evals
        self.isolated = viol["cls"].endswith(("/crash", "/hang"))
        if viol["cls"].endswith("/hang"):
            # every candidate costs a full time-out
            self.max_evals = min(self.max_evals, 6)

    def same(self, res):
        v = res.get("viol")
        if not v or v["cls"] != self.viol["cls"]:
            return False
        e = match_known(v, self.known)
        return (e is None) == (self.entry is None) and \
            (e is None or e.get("id") == self.entry.get("id"))

    def test(self, case):
        if self.evals >= self.max_evals:
            return False
        self.evals += 1
        if self.isolated or self.m.isolate_shrink:
            res = run_case_isolated(self.m, case)
        else:
            res = safe_run(self.m, case)
        if self.same(res):
            self.viol = res["viol"]
            return True
        return False

    def with_actions(self, actions):
        c = dict(self.case)
        c["actions"] = actions
        return c

    def shrink(self):
        acts = list(self.case["actions"])
        # truncate after the failing step when known
        step = self.viol.get("step")
        if step is not None and step + 1 < len(acts):
            cand = acts[:step + 1]
            if self.test(self.with_actions(cand)):
                acts = cand
        # ddmin
        n = 2
        while len(acts) >= 2 and self.evals < self.max_evals:
            size = max(1, len(acts) // n)
            removed = False
            k = 0
            while k < len(acts):
                cand = acts[:k] + acts[k + size:]
                if cand != acts and self.test(self.with_actions(cand)):
                    acts = cand
                    removed = True
                    n = max(n - 1, 2)
                else:
                    k += size
            if not removed:
                if size == 1:
                    break
                n = min(n * 2, len(acts))
        self.case = self.with_actions(acts)
        # simplify arguments
        changed = True
        rounds = 0
        while changed and rounds < 3 and self.evals < self.max_evals:
            changed = False
            rounds += 1
            for k in range(len(acts)):
                for simpler in self.m.simplify_action(acts[k]):
                    if simpler == acts[k]:
                        continue
                    cand = acts[:k] + [simpler] + acts[k + 1:]
                    if self.test(self.with_actions(cand)):
                        acts = cand
                        self.case = self.with_actions(acts)
                        changed = True
                        break
            for cfg in self.m.simplify_cfg(self.case["cfg"]):
                if cfg == self.case["cfg"]:
                    continue
                cand = dict(self.case)
                cand["cfg"] = cfg
                if self.test(cand):
                    self.case = cand
                    changed = True
        return self.case, self.viol


Machine.isolate_shrink = False
Machine.shrink_max_evals = 600


# ---------------------------------------------------------------------------
# replay files

def write_replay(machine, case, viol, tag):
    os.makedirs(REPLAY_DIR, exist_ok=True)
    path = os.path.join(REPLAY_DIR, "%s-%s.json" % (machine.pid, tag))
    with open(path, "w") as fd:
        json.dump({"property": machine.pid, "violation": viol, "case": case,
                   "hashseed": os.environ.get("PYTHONHASHSEED", "0"),
                   "how": "./check %s --replay %s" % (machine.pid, path)},
                  fd, indent=1, sort_keys=True)
    return path


def replay_file(machine, path, verbose=True):
    """Re-execute a replay file.  Exit status: 1 if the recorded violation
    class reproduces, 0 if the run is clean, 2 on a different outcome."""
    with open(path) as fd:
        rec = json.load(fd)
    res = run_case_isolated(machine, rec["case"], keep_log=True)
    v = res.get("viol")
    want = rec.get("violation")
    if verbose:
        for line in res.get("log", []) or []:
            print("  | " + line)
    if res.get("harness_error"):
        print("HARNESS-ERROR during replay:\n" + res["harness_error"])
        return 2
    if v and want and v["cls"] == want["cls"]:
        print("REPRODUCED %s: %s" % (v["cls"], v["detail"]))
        return 1
    if v:
        print("DIFFERENT violation %s: %s" % (v["cls"], v["detail"]))
        return 2 if want else 1
    print("CLEAN replay (digest %s)" % res.get("digest"))
    return 0 if not want else 2


def confirm_in_fresh_process(machine, path):
    """Replay in a fresh interpreter; True if it reproduces."""
    cmd = [sys.executable, os.path.join(VERIF_DIR, "check"), machine.pid,
           "--replay", path, "--quiet"]
    env = dict(os.environ)
    p = subprocess.run(cmd, env=env, stdout=subprocess.PIPE, stderr=subprocess.STDOUT)
    return p.returncode == 1, p.stdout.decode(errors="replace")


# ---------------------------------------------------------------------------
# determinism self-test

def digests_for(machine, seed, indices, jobs):
    machine.master_seed = seed
    open_known = [e for e in load_known(machine.pid) if e.get("status") == "open"]
    b = Batch(machine, seed, 0, jobs, unsteered_every=machine.unsteered_every if open_known else 0)
    out = {}
    for i in indices:
        case = b.make_case(i)
        res = run_case_isolated(machine, case)
        out[str(i)] = [res.get("digest"), (res.get("viol") or {}).get("cls")]
    return out


def selftest_determinism(machine, seed, batch_results, n):
    """Re-run the first @n runs of the batch alone (one run per child) in a
    fresh interpreter under another PYTHONHASHSEED and compare event-log
    digests with those obtained inside the parallel batch."""
    n = min(n, len(batch_results))
    if n == 0:
        return {"runs": 0, "ok": True}
    env = dict(os.environ)
    env["PYTHONHASHSEED"] = str(1 + seed % 1000)
    env["VERIF_SEED"] = str(seed)
    cmd = [sys.executable, os.path.join(VERIF_DIR, "check"), machine.pid,
           "--digests", "0:%d" % n]
    p = subprocess.run(cmd, env=env, stdout=subprocess.PIPE, stderr=subprocess.PIPE)
    try:
        other = json.loads(p.stdout.decode().strip().splitlines()[-1])
    except (ValueError, IndexError):
        return {"runs": n, "ok": False,
                "error": "digest subprocess failed: %s" % p.stderr.decode(errors="replace")[-2000:]}
    diffs = []
    for i in range(n):
        rec = batch_results.get(i)
        if rec is None:
            continue
        mine = [rec.get("digest"), (rec.get("viol") or {}).get("cls")]
        if other.get(str(i)) != mine:
            diffs.append({"i": i, "batch": mine, "alone": other.get(str(i))})
    return {"runs": n, "ok": not diffs, "diffs": diffs[:5],
            "hashseed_other": env["PYTHONHASHSEED"]}


# ---------------------------------------------------------------------------
# the check driver

def default_seed(tier):
    return 20260921 if tier == "quick" else 20260922


def run_check(machine, tier, seed=None, runs=None, jobs=None):
    t0 = time.time()
    if seed is None:
        seed = int(os.environ.get("VERIF_SEED", default_seed(tier)))
    jobs = jobs or int(os.environ.get("VERIF_JOBS", os.cpu_count() or 4))
    if runs is None:
        runs = machine.quick_runs if tier == "quick" else machine.thorough_runs
        runs = int(os.environ.get("VERIF_RUNS", runs))
    budget = os.environ.get("VERIF_BUDGET_S")
    budget = float(budget) if budget else (machine.quick_budget_s if tier == "quick"
                                           else machine.thorough_budget_s)
    print("SEED %d property=%s tier=%s runs=%d jobs=%d repo=%s" %
          (seed, machine.pid, tier, runs, jobs, REPO))
    sys.stdout.flush()
    machine.master_seed = seed
    machine.setup()
    known = load_known(machine.pid)
    open_known = [e for e in known if e.get("status") == "open"]
    batch = Batch(machine, seed, runs, jobs, budget_s=budget,
                  unsteered_every=machine.unsteered_every if open_known else 0)
    results = batch.run()

    # aggregate
    probes = {}
    ops = 0
    ticks = 0
    sigs = set()
    viols = []
    for i in sorted(results):
        rec = results[i]
        ops += rec.get("ops", 0)
        ticks += rec.get("ticks", 0)
        for k, v in rec.get("probes", {}).items():
            probes[k] = probes.get(k, 0) + v
        if rec.get("nontrivial") and rec.get("digest"):
            sigs.add(rec["digest"])
        if rec.get("viol"):
            viols.append(rec)

    # every open known finding has a committed replay; it is re-executed on every check so that
    # the finding is re-confirmed (or seen to be gone) whatever the seeded batch happened to reach
    known_gone = []
    for e in open_known:
        kpath = os.path.join(VERIF_DIR, "known_replays", "%s.json" % e.get("id"))
        if not os.path.exists(kpath):
            continue
        with open(kpath) as fd:
            kcase = json.load(fd)["case"]
        res = run_case_isolated(machine, kcase)
        probes["known_replays_executed"] = probes.get("known_replays_executed", 0) + 1
        if res.get("harness_error"):
            batch.harness_errors.append(res)
        elif res.get("viol"):
            viols.append({"i": -1, "seed": kcase.get("seed", 0), "case": kcase, "viol": res["viol"]})
        else:
            known_gone.append(e.get("id"))
            print("KNOWN-FINDING-NOT-REPRODUCED property=%s %s: its recorded replay %s runs clean on this tree"
                  % (machine.pid, e.get("id"), kpath))

    status = 0
    if batch.harness_errors:
        print("HARNESS-ERROR in %d runs; first:\n%s" %
              (len(batch.harness_errors), batch.harness_errors[0]["harness_error"]))
        status = 2

    # violations: one minimised replay per (class, known entry)
    groups = {}
    for rec in viols:
        e = match_known(rec["viol"], open_known)
        key = (rec["viol"]["cls"], e.get("id") if e else None)
        groups.setdefault(key, []).append(rec)
    reported = []
    known_lines = []
    new_violations = 0
    harness_problem = False
    confirmed_violation = False
    for key in sorted(groups, key=lambda k: (k[0], str(k[1]))):
        recs = groups[key]
        rec = min(recs, key=lambda r: (len(r["case"]["actions"]), r["i"]))
        sh = Shrinker(machine, rec["case"], rec["viol"], open_known, max_evals=machine.shrink_max_evals)
        if rec["i"] == -1:
            case, viol = rec["case"], rec["viol"]      # the committed replay of a known finding is minimal already
        else:
            case, viol = sh.shrink()
        tag = "%d" % rec["seed"]
        path = write_replay(machine, case, viol, tag)
        ok, out = confirm_in_fresh_process(machine, path)
        entry = match_known(viol, open_known)
        info = {"class": viol["cls"], "runs": len(recs), "replay": path,
                "detail": viol["detail"], "confirmed": ok,
                "known": entry.get("id") if entry else None,
                "actions": len(case["actions"]), "shrink_evals": sh.evals}
        reported.append(info)
        if not ok and viol["cls"].endswith("/hang"):
            # a wall-clock time-out that does not reproduce is load on the machine, not behaviour of the code
            print("TIMEOUT-NOT-REPRODUCED property=%s replay=%s (run exceeded %ds once; replay finished: not a violation)"
                  % (machine.pid, path, machine.run_timeout))
            info["timeout_not_reproduced"] = True
            continue
        if not ok:
            print("HARNESS-NONDETERMINISM property=%s class=%s replay=%s did not reproduce in a fresh process:\n%s"
                  % (machine.pid, viol["cls"], path, out[-1500:]))
            harness_problem = True
            continue
        if entry is not None:
            known_lines.append("KNOWN-FINDING: property=%s %s [%s; %d runs; replay=%s]" %
                               (machine.pid, entry.get("what", viol["cls"]), entry.get("id"), len(recs), path))
        else:
            new_violations += 1
            print("VIOLATION property=%s replay=%s" % (machine.pid, path))
            print("  class=%s runs=%d detail=%s" % (viol["cls"], len(recs), viol["detail"]))
            confirmed_violation = True
    for line in known_lines:
        print(line)
    # a confirmed, replayable violation decides the exit status; a harness problem only when there is none
    if confirmed_violation:
        status = 1
    elif harness_problem and status == 0:
        status = 2

    # determinism self-test
    st = selftest_determinism(machine, seed, results, machine.selftest_runs
                              if tier == "quick" else machine.selftest_runs * 4)
    if not st["ok"] and not confirmed_violation:
        print("HARNESS-NONDETERMINISM property=%s selftest: %s" % (machine.pid, json.dumps(st)[:1500]))
        status = 2 if status == 0 else status

    wall = time.time() - t0
    done = len(results)
    samples = []
    for i in range(min(3, done)):
        rec = results.get(i)
        if rec and rec.get("case"):
            c = rec["case"]
            samples.append({"run": i, "seed": c["seed"], "cfg": c["cfg"],
                            "actions": c["actions"][:40],
                            "actions_total": len(c["actions"]),
                            "digest": rec.get("digest")})
    evidence = {
        "property_id": machine.pid,
        "tier": tier,
        "seed": seed,
        "level": "exploration",
        "coverage": {
            "evaluations": done,
            "distinct_nontrivial": len(sigs),
            "rule": machine.rule,
            "samples": samples,
            "runs_requested": runs,
            "runs_skipped_budget": batch.skipped,
            "runs_per_hour": int(done / max(batch.wall, 1e-3) * 3600),
            "operations_executed": ops,
            "simulated_ticks": ticks,
            "fault_and_reach_probes": dict(sorted(probes.items())),
            "probes_at_zero": sorted(k for k in machine.expected_probes if not probes.get(k)),
            "violation_groups": reported,
            "known_findings_open": [e.get("id") for e in open_known],
            "known_findings_not_reproduced": known_gone,
            "determinism_selftest": st,
            "components_real": machine.real_components,
            "components_stub": machine.stub_components,
            "jobs": jobs,
            "repo": REPO,
        },
        "assumptions": machine.assumptions,
        "wall_s": round(wall, 2),
        "violations": new_violations,
    }
    os.makedirs(EVIDENCE_DIR, exist_ok=True)
    with open(os.path.join(EVIDENCE_DIR, "%s.json" % machine.pid), "w") as fd:
        json.dump(evidence, fd, indent=1, sort_keys=True)
    print("DONE property=%s runs=%d distinct=%d ops=%d violations=%d known=%d wall=%.1fs status=%d" %
          (machine.pid, done, len(sigs), ops, new_violations, len(known_lines), wall, status))
    return status


Machine.quick_budget_s = 150.0
Machine.thorough_budget_s = 1500.0
Machine.unsteered_every = 50
Machine.expected_probes = []
