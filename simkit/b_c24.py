"""C24 — VmMngr operation histories against a page/byte model.

Real: the VmMngr C extension built from the working tree.  Emulated typed
accesses go through the very entry points jitted code calls
(vm_MEM_LOOKUP_nn / vm_MEM_WRITE_nn followed by check_memory_breakpoint),
reached with ctypes on the freshly built library.

Model: pages {addr: (bytes, access)}, zero-sized pages, memory breakpoints,
the byte sets read / written since the last reset, the pending fault flags.
Fault operations are part of every history: accesses into holes, into pages
without R or W, straddling two pages of different permissions, unmapping a
page under a breakpoint, overlapping and zero-sized mappings.
"""
import ctypes

from simkit.core import Violation
from simkit.opmachine import OpMachine, World

PAGE_READ, PAGE_WRITE = 1, 2
BP_READ, BP_WRITE = 1, 2
LO, HI = 0x100, 0x180


class C24(OpMachine):
    pid = "C24"
    title = "VmMngr behaves like a byte map with permissions"
    rule = ("seeded histories (1-60 ops) over addresses 0x100-0x180: add/remove page (sizes 0-32, adjacent, overlapping), "
            "set/get access, host get_mem/set_mem/get_uN/set_uN, emulated 8/16/32/64-bit reads and writes (C entry points), "
            "is_mapped, memory breakpoints, reset_memory_access, set_exception(0); both byte orders; non-trivial = >=3 ops; "
            "distinct = distinct event-log digest")
    real_components = ["VmMngr C extension (vm_mngr.c, vm_mngr_py.c) built from the working tree",
                       "vm_MEM_LOOKUP_*/vm_MEM_WRITE_* called through ctypes exactly as jitted code calls them"]
    stub_components = ["reference model: pages, permissions, breakpoints, access sets, flags (simkit/b_c24.py)"]
    assumptions = ["contents after a failed host write, the flags after a failed host call, and whether a faulted emulated access is "
                   "listed in the recorded ranges are re-read from the real object (counted, not judged)",
                   "a breakpoint added over bytes already recorded as accessed is not judged until the next reset",
                   "the VmMngr object keeps its vm_mngr_t at offset 24 (checked at start-up)"]
    quick_runs = 12000
    thorough_runs = 250000
    chunk = 200
    needs_build = True
    isolate_shrink = True
    expected_probes = ["add_page", "add_page_overlap_refused", "add_zero_page", "add_adjacent_page", "remove_page",
                       "host_read_ok", "host_read_fail", "host_write_ok", "host_write_fail", "host_u_ok",
                       "emu_read_ok", "emu_read_fault_unmapped", "emu_read_fault_perm", "emu_write_ok",
                       "emu_write_fault_unmapped", "emu_write_fault_perm", "emu_straddle_ok", "emu_straddle_fault_second_page",
                       "bp_triggered", "bp_not_triggered", "bp_straddle_second_byte", "reset_access", "big_endian_run",
                       "is_mapped_true", "is_mapped_false", "set_access"]

    def setup(self):
        from simkit import build
        out = build.activate()
        from miasm.jitter import VmMngr
        from miasm.jitter.csts import EXCEPT_ACCESS_VIOL, EXCEPT_BREAKPOINT_MEMORY
        self.VmMngr = VmMngr
        self.AV, self.BPM = EXCEPT_ACCESS_VIOL, EXCEPT_BREAKPOINT_MEMORY
        lib = ctypes.CDLL(VmMngr.__file__)
        self.lib = lib
        self.rd = {}
        self.wr = {}
        for n, ct in ((8, ctypes.c_ubyte), (16, ctypes.c_ushort), (32, ctypes.c_uint), (64, ctypes.c_uint64)):
            f = getattr(lib, "vm_MEM_LOOKUP_%02d" % n)
            f.argtypes = [ctypes.c_void_p, ctypes.c_uint64]
            f.restype = ct
            self.rd[n] = f
            g = getattr(lib, "vm_MEM_WRITE_%02d" % n)
            g.argtypes = [ctypes.c_void_p, ctypes.c_uint64, ct]
            g.restype = None
            self.wr[n] = g
        # sanity: the vm_mngr_t really sits at offset 24 (its first field is `sex`)
        vm = self._new_vm(False)
        le = ctypes.c_int.from_address(id(vm) + 24).value
        vm.set_big_endian()
        be = ctypes.c_int.from_address(id(vm) + 24).value
        if le == be or {le, be} != {1234, 4321}:
            raise RuntimeError("unexpected VmMngr object layout (%r, %r)" % (le, be))

    def _new_vm(self, big):
        vm = self.VmMngr.Vm()
        vm.init_memory_page_pool()
        vm.init_code_bloc_pool()
        vm.init_memory_breakpoint()
        if big:
            vm.set_big_endian()
        else:
            vm.set_little_endian()
        return vm

    # ---- generation ---------------------------------------------------------------
    def gen(self, rng, steer):
        cfg = {"big_endian": rng.random() < 0.35}
        n = rng.randint(1, 60)
        kinds = (["add"] * 6 + ["remove"] * 2 + ["set_access"] * 2 + ["get_access"] + ["hread"] * 3 + ["hwrite"] * 3 +
                 ["hu_get"] * 2 + ["hu_set"] * 2 + ["eread"] * 6 + ["ewrite"] * 6 + ["is_mapped"] * 2 +
                 ["bp_add"] * 2 + ["bp_remove"] + ["reset"] * 2 + ["clear_exc"] * 2)
        if rng.random() < 0.3:
            kinds = [k for k in kinds if k not in ("bp_add", "bp_remove")]
        actions = []
        ends = [LO]
        spans = []
        bps = []
        for _ in range(n):
            k = rng.choice(kinds)
            addr = rng.choice([rng.randrange(LO, HI), rng.choice(ends), rng.choice(ends) - rng.choice([1, 2, 3, 4, 7])])
            if spans and rng.random() < 0.6:
                # aim at bytes that were mapped at some point: most accesses should succeed
                s0, n0 = rng.choice(spans)
                addr = s0 + rng.randrange(n0)
            if k == "add":
                size = rng.choice([0, 1, 2, 4, 8, 8, 16, 16, 32])
                start = rng.choice([rng.choice(ends), rng.choice(ends), rng.randrange(LO, HI) & ~3])
                actions.append([k, start, size, rng.choice([3, 3, 3, 1, 2, 0, 7]), rng.getrandbits(16)])
                ends.append(start + size)
                if size:
                    spans.append((start, size))
            elif k in ("remove", "get_access"):
                actions.append([k, addr])
            elif k == "set_access":
                actions.append([k, addr, rng.choice([0, 1, 2, 3, 3])])
            elif k == "hread":
                actions.append([k, addr, rng.choice([1, 2, 4, 8, 13])])
            elif k == "hwrite":
                actions.append([k, addr, rng.choice([1, 2, 4, 8, 13]), rng.getrandbits(16)])
            elif k == "hu_get":
                actions.append([k, addr, rng.choice([8, 16, 32, 64])])
            elif k == "hu_set":
                size = rng.choice([8, 16, 32, 64])
                actions.append([k, addr, size, rng.getrandbits(size)])
            elif k == "eread":
                actions.append([k, addr, rng.choice([8, 16, 32, 64])])
            elif k == "ewrite":
                size = rng.choice([8, 16, 32, 64])
                actions.append([k, addr, size, rng.getrandbits(size)])
            elif k == "is_mapped":
                actions.append([k, addr, rng.choice([1, 2, 4, 8, 20])])
            elif k == "bp_add":
                if bps and rng.random() < 0.35:
                    addr = rng.choice(bps)      # several breakpoints at one address (other size, same or other access)
                bps.append(addr)
                actions.append([k, addr, rng.choice([1, 1, 2, 4]), rng.choice([BP_READ, BP_WRITE, BP_READ | BP_WRITE])])
            elif k == "bp_remove":
                actions.append([k, rng.randrange(4)])
            else:
                actions.append([k])
        return {"cfg": cfg, "actions": actions}

    def simplify_action(self, a):
        if a[0] in ("eread", "ewrite", "hu_get", "hu_set") and a[2] > 8:
            yield a[:2] + [a[2] // 2] + ([a[3] & ((1 << (a[2] // 2)) - 1)] if len(a) > 3 else [])
        if a[0] == "add" and a[3] != 3:
            yield a[:3] + [3] + a[4:]
        if a[0] in ("hread", "hwrite", "is_mapped") and a[2] > 1:
            yield a[:2] + [1] + a[3:]

    def simplify_cfg(self, cfg):
        if cfg["big_endian"]:
            yield {"big_endian": False}

    # ---- world ----------------------------------------------------------------------
    def make_world(self, cfg, log):
        w = World()
        w.big = cfg["big_endian"]
        if w.big:
            w.probe("big_endian_run")
        w.vm = self._new_vm(w.big)
        w.ptr = id(w.vm) + 24
        w.pages = {}        # addr -> [bytearray, access]
        w.zero = []         # zero-sized pages (addr, access)
        w.bps = []          # [ad, size, access]
        w.r = set()
        w.wset = set()
        w.wmaybe = set()
        w.flags = 0
        w.bp_unsure = False
        return w

    def _page_of(self, w, a):
        for s, (d, acc) in w.pages.items():
            if s <= a < s + len(d):
                return s
        return None

    def _bytes(self, w, addr, n):
        out = bytearray()
        for a in range(addr, addr + n):
            s = self._page_of(w, a)
            if s is None:
                return None
            out.append(w.pages[s][0][a - s])
        return bytes(out)

    def _snapshot(self, w):
        """Content of every model page read through the host API."""
        snap = {}
        for s, (d, _) in w.pages.items():
            try:
                snap[s] = w.vm.get_mem(s, len(d))
            except RuntimeError:
                snap[s] = None
        return snap

    def _sync_from_real(self, w, what):
        """Counted relaxation: re-read part of the state from the real object."""
        w.probe("relaxed_resync_" + what)
        if what == "memory":
            for s, data in self._snapshot(w).items():
                if data is not None:
                    w.pages[s][0][:] = data
        elif what == "flags":
            w.flags = w.vm.get_exception()
        elif what == "access_sets":
            w.r = self._rangeset(w.vm.get_memory_read())
            w.wset = self._rangeset(w.vm.get_memory_write())

    @staticmethod
    def _rangeset(ranges):
        s = set()
        for a, b in ranges:
            s.update(range(a, b))
        return s

    def _bp_maybe(self, w):
        return any(acc & BP_WRITE and set(range(ad, ad + size)) & w.wmaybe for ad, size, acc in w.bps)

    def _bp_overlap(self, w):
        for ad, size, acc in w.bps:
            rng_ = set(range(ad, ad + size))
            if acc & BP_READ and rng_ & w.r:
                return True
            if acc & BP_WRITE and rng_ & w.wset:
                return True
        return False

    def apply(self, w, a, log):
        vm = w.vm
        k = a[0]
        facts = {"op": k, "big_endian": w.big}
        w.last_facts = facts
        order = "big" if w.big else "little"
        if k == "add":
            _, addr, size, access, seed = a
            data = bytes(((seed >> (i % 9)) + 17 * i + addr) & 0xFF for i in range(size))
            overlap = any(s < addr + size and addr < s + len(d) for s, (d, _) in w.pages.items()) if size else False
            facts["size"] = size
            exc = None
            try:
                vm.add_memory_page(addr, access, data, "p%x" % addr)
            except TypeError:
                exc = "refused"
            log.add(k, hex(addr), size, access, exc)
            if overlap:
                w.probe("add_page_overlap_refused")
                if exc is None:
                    raise Violation("C24/overlap-accepted", "page [%#x,%#x) accepted over an existing page" % (addr, addr + size), facts)
            else:
                if exc is not None:
                    # zero-sized pages may legitimately be refused (and a page around one too);
                    # any other non-overlapping page must be accepted
                    if size and not any(addr <= z <= addr + size for z, _ in w.zero):
                        raise Violation("C24/mapping-refused", "non-overlapping page [%#x,%#x) refused" % (addr, addr + size), facts)
                    return
                if size == 0:
                    w.probe("add_zero_page")
                    facts["zero_at_page_start"] = addr in w.pages
                    w.zero.append((addr, access))
                else:
                    w.probe("add_page")
                    if any(s + len(d) == addr or addr + size == s for s, (d, _) in w.pages.items()):
                        w.probe("add_adjacent_page")
                    w.pages[addr] = [bytearray(data), access]
        elif k == "remove":
            s = self._page_of(w, a[1])
            vm.remove_memory_page(a[1])
            log.add(k, hex(a[1]), s)
            if s is not None:
                w.probe("remove_page")
                del w.pages[s]
            # a zero-sized page at that address may or may not go away: not judged, the model
            # keeps it (it maps no byte; it only widens the tolerated refusals of add_memory_page)
        elif k == "set_access":
            s = self._page_of(w, a[1])
            exc = None
            try:
                vm.set_mem_access(a[1], a[2])
            except RuntimeError:
                exc = "RuntimeError"
            log.add(k, hex(a[1]), a[2], exc)
            if s is None:
                if exc is None:
                    raise Violation("C24/host-unmapped-ok", "set_mem_access on unmapped %#x succeeded" % a[1], facts)
                self._sync_from_real(w, "flags")
            else:
                if exc:
                    raise Violation("C24/host-mapped-fails", "set_mem_access on mapped %#x failed" % a[1], facts)
                w.probe("set_access")
                w.pages[s][1] = a[2]
        elif k == "get_access":
            s = self._page_of(w, a[1])
            got = exc = None
            try:
                got = vm.get_mem_access(a[1])
            except RuntimeError:
                exc = "RuntimeError"
            log.add(k, hex(a[1]), got, exc)
            if s is None:
                if exc is None:
                    raise Violation("C24/host-unmapped-ok", "get_mem_access on unmapped %#x returned %r" % (a[1], got), facts)
                self._sync_from_real(w, "flags")
            elif exc or got != w.pages[s][1]:
                raise Violation("C24/wrong-permission", "get_mem_access(%#x) = %r/%s, model %r" % (a[1], got, exc, w.pages[s][1]), facts)
        elif k in ("hread", "hu_get"):
            addr = a[1]
            n = a[2] if k == "hread" else a[2] // 8
            want = self._bytes(w, addr, n)
            got = exc = None
            try:
                if k == "hread":
                    got = vm.get_mem(addr, n)
                else:
                    got = getattr(vm, "get_u%d" % a[2])(addr)
            except RuntimeError:
                exc = "RuntimeError"
            log.add(k, hex(addr), a[2], got, exc)
            if want is None:
                w.probe("host_read_fail")
                if exc is None:
                    raise Violation("C24/host-unmapped-ok", "host read of [%#x,+%d) touching unmapped bytes returned %r" % (addr, n, got), facts)
                self._sync_from_real(w, "flags")
            else:
                w.probe("host_read_ok" if k == "hread" else "host_u_ok")
                if k == "hu_get":
                    want = int.from_bytes(want, order)
                if exc or got != want:
                    raise Violation("C24/wrong-read", "host %s(%#x) = %r/%s, model %r" % (k, addr, got, exc, want), facts)
        elif k in ("hwrite", "hu_set"):
            addr = a[1]
            if k == "hwrite":
                data = bytes(((a[3] >> (i % 8)) + 31 * i) & 0xFF for i in range(a[2]))
            else:
                data = (a[3] & ((1 << a[2]) - 1)).to_bytes(a[2] // 8, order)
            ok = self._bytes(w, addr, len(data)) is not None
            exc = None
            try:
                if k == "hwrite":
                    vm.set_mem(addr, data)
                else:
                    getattr(vm, "set_u%d" % a[2])(addr, a[3] & ((1 << a[2]) - 1))
            except (RuntimeError, TypeError):
                exc = "raised"
            log.add(k, hex(addr), a[2], exc)
            if not ok:
                w.probe("host_write_fail")
                if exc is None:
                    raise Violation("C24/host-unmapped-ok", "host write of [%#x,+%d) touching unmapped bytes succeeded" % (addr, len(data)), facts)
                self._sync_from_real(w, "memory")
                self._sync_from_real(w, "flags")
            else:
                w.probe("host_write_ok")
                if exc:
                    raise Violation("C24/host-mapped-fails", "host write of mapped [%#x,+%d) failed" % (addr, len(data)), facts)
                for i, b in enumerate(data):
                    s = self._page_of(w, addr + i)
                    w.pages[s][0][addr + i - s] = b
                # host writes are tracked for self-modifying-code detection; whether they
                # count as "accessed" is not judged
                w.wmaybe.update(range(addr, addr + len(data)))
        elif k in ("eread", "ewrite"):
            addr, size = a[1], a[2]
            n = size // 8
            need = PAGE_READ if k == "eread" else PAGE_WRITE
            touched = list(range(addr, addr + n))
            pages = [self._page_of(w, t) for t in touched]
            unmapped = any(p is None for p in pages)
            noperm = any(p is not None and not (w.pages[p][1] & need) for p in pages)
            straddle = len(set(pages)) > 1
            fault = unmapped or noperm
            facts.update({"size": size, "straddle": straddle, "unmapped": unmapped, "noperm": noperm,
                          "first_byte_ok": pages[0] is not None and bool(w.pages[pages[0]][1] & need)})
            before = {s: bytes(d) for s, (d, _) in w.pages.items()}
            before = self._snapshot(w)
            flags_before = w.flags
            got = None
            if k == "eread":
                got = self.rd[size](w.ptr, addr)
            else:
                val = a[3] & ((1 << size) - 1)
                self.wr[size](w.ptr, addr, val)
            vm.check_memory_breakpoint()
            flags = vm.get_exception()
            log.add(k, hex(addr), size, got, hex(flags))
            after = self._snapshot(w)
            if fault:
                w.probe("emu_%s_fault_%s" % (k[1:], "unmapped" if unmapped else "perm"))
                if straddle and facts["first_byte_ok"]:
                    w.probe("emu_straddle_fault_second_page")
                if not flags & self.AV:
                    raise Violation("C24/no-fault", "emulated %d-bit %s at %#x touches %s bytes but no fault is pending"
                                    % (size, k[1:], addr, "unmapped" if unmapped else "protected"), facts)
                if after != before:
                    diff = [hex(s + i) for s in before for i in range(len(before[s])) if after.get(s, b"")[i:i + 1] != before[s][i:i + 1]]
                    raise Violation("C24/fault-changed-memory", "faulting emulated %d-bit write at %#x changed bytes %s"
                                    % (size, addr, diff[:8]), facts)
                w.flags |= self.AV
                self._sync_from_real(w, "access_sets")
                # whether a faulted access also raises a breakpoint is not judged
                w.flags = (w.flags & ~self.BPM) | (flags & self.BPM)
            else:
                if straddle:
                    w.probe("emu_straddle_ok")
                if flags & self.AV and not flags_before & self.AV:
                    raise Violation("C24/spurious-fault", "emulated %d-bit %s at %#x on mapped, permitted bytes faulted" % (size, k[1:], addr), facts)
                raw = self._bytes(w, addr, n)
                if k == "eread":
                    w.probe("emu_read_ok")
                    want = int.from_bytes(raw, order)
                    if got != want:
                        raise Violation("C24/wrong-read", "emulated %d-bit read at %#x = %#x, model %#x (%s endian)"
                                        % (size, addr, got, want, order), facts)
                    w.r.update(touched)
                    if after != before:
                        raise Violation("C24/wrong-write", "emulated read changed memory", facts)
                else:
                    w.probe("emu_write_ok")
                    data = val.to_bytes(n, order)
                    for i, b in enumerate(data):
                        s = self._page_of(w, addr + i)
                        w.pages[s][0][addr + i - s] = b
                    w.wset.update(touched)
                # breakpoints
                if not w.bp_unsure and not self._bp_maybe(w):
                    expect_bp = bool(flags_before & self.BPM) or self._bp_overlap(w)
                    if expect_bp:
                        w.probe("bp_triggered")
                        hit_first = any(ad <= addr < ad + sz and acc & (BP_READ if k == "eread" else BP_WRITE) for ad, sz, acc in w.bps)
                        if not hit_first and not flags_before & self.BPM:
                            w.probe("bp_straddle_second_byte")
                    elif w.bps:
                        w.probe("bp_not_triggered")
                    if bool(flags & self.BPM) != expect_bp:
                        raise Violation("C24/breakpoint", "after emulated %d-bit %s at %#x memory-breakpoint flag is %s, expected %s (breakpoints %s)"
                                        % (size, k[1:], addr, bool(flags & self.BPM), expect_bp,
                                           [(hex(x), y, z) for x, y, z in w.bps]), facts)
                w.flags = (w.flags & ~self.BPM) | (flags & self.BPM)
        elif k == "is_mapped":
            want = self._bytes(w, a[1], a[2]) is not None
            got = bool(vm.is_mapped(a[1], a[2]))
            log.add(k, hex(a[1]), a[2], got)
            w.probe("is_mapped_true" if want else "is_mapped_false")
            facts["zero_pages"] = len(w.zero)
            if got != want:
                raise Violation("C24/is-mapped", "is_mapped(%#x, %d) = %s, model %s (zero-sized pages at %s)"
                                % (a[1], a[2], got, want, [hex(z) for z, _ in w.zero]), facts)
        elif k == "bp_add":
            _, ad, size, acc = a
            vm.add_memory_breakpoint(ad, size, acc)
            rng_ = set(range(ad, ad + size))
            flags = vm.get_exception()
            if (acc & BP_READ and rng_ & w.r) or (acc & BP_WRITE and rng_ & (w.wset | w.wmaybe)):
                # documented: registration raises a breakpoint pending on already recorded accesses
                w.bp_unsure = True
            elif flags & self.BPM and not w.flags & self.BPM and not w.bp_unsure and not self._bp_maybe(w) \
                    and not self._bp_overlap(w):
                raise Violation("C24/breakpoint", "registering breakpoint [%#x,+%d) raised the flag with no overlapping access" % (ad, size), facts)
            w.flags = (w.flags & ~self.BPM) | (flags & self.BPM)
            w.bps.append([ad, size, acc])
            log.add(k, hex(ad), size, acc, hex(flags))
        elif k == "bp_remove":
            if not w.bps:
                return
            ad, size, acc = w.bps[a[1] % len(w.bps)]
            vm.remove_memory_breakpoint(ad, acc)
            w.bps = [b for b in w.bps if not (b[0] == ad and b[2] == acc)]
            log.add(k, hex(ad), acc)
        elif k == "reset":
            vm.reset_memory_access()
            w.r, w.wset, w.wmaybe = set(), set(), set()
            w.probe("reset_access")
            if not w.flags & self.BPM:
                w.bp_unsure = False
            log.add(k)
        elif k == "clear_exc":
            vm.set_exception(0)
            w.flags = 0
            if not w.r and not w.wset:
                w.bp_unsure = False
            log.add(k)

    def invariant(self, w, log):
        vm = w.vm
        facts = w.last_facts
        mapped = set()
        for s, (d, _) in w.pages.items():
            mapped.update(range(s, s + len(d)))
        zero_pages = len(w.zero)
        for aaddr in range(LO - 8, HI + 48):
            if bool(vm.is_mapped(aaddr, 1)) != (aaddr in mapped):
                raise Violation("C24/is-mapped", "byte %#x mapped: %s, model: %s (zero-sized pages at %s)"
                                % (aaddr, aaddr not in mapped, aaddr in mapped, [hex(z) for z, _ in w.zero]),
                                dict(facts, zero_pages=zero_pages))
        snap = self._snapshot(w)
        for s, (d, acc) in w.pages.items():
            if snap[s] != bytes(d):
                raise Violation("C24/wrong-write", "page %#x holds %r, model %r" % (s, snap[s], bytes(d)), facts)
            if vm.get_mem_access(s) != acc or vm.get_mem_access(s + len(d) - 1) != acc:
                raise Violation("C24/wrong-permission", "page %#x access %d, model %d" % (s, vm.get_mem_access(s), acc), facts)
        # the page list agrees too, wherever a zero-sized page does not share the key
        mem = vm.get_all_memory()
        zs = set(z for z, _ in w.zero)
        for s, (d, acc) in w.pages.items():
            if s not in zs and (s not in mem or mem[s]["data"] != bytes(d) or mem[s]["access"] != acc):
                raise Violation("C24/pages-differ", "get_all_memory() lacks or misreports page %#x" % s, facts)
        for s in mem:
            if mem[s]["size"] and s not in w.pages:
                raise Violation("C24/pages-differ", "get_all_memory() lists unknown page %#x" % s, facts)
        r = self._rangeset(vm.get_memory_read())
        ws = self._rangeset(vm.get_memory_write())
        if r != w.r or not (w.wset <= ws <= (w.wset | w.wmaybe)):
            raise Violation("C24/access-ranges", "recorded read/write bytes %s/%s, accessed since reset %s/%s"
                            % (sorted(map(hex, r)), sorted(map(hex, ws)), sorted(map(hex, w.r)), sorted(map(hex, w.wset))), facts)


_M = C24()


def get_machine(pid):
    return _M
