"""C33 — StrPatchwork histories against a bytearray model with padding.

Operations: index read (inside / at end / beyond), slice read (open, closed,
beyond the end, with steps), index write of 1..n bytes (inside, at end, beyond
the end -> padding), closed slice write of the same length, open-ended slice
write, +=, find/rfind (with and without bounds), `in`, len, bytes().
"Faults" here are the edge paths of the API: accesses at and past the end and
searches right after a mutation (stale cache).
"""
from simkit.core import Violation
from simkit.opmachine import OpMachine, World


class C33(OpMachine):
    pid = "C33"
    title = "StrPatchwork behaves like a padded growable byte string"
    rule = ("seeded histories (1-40 ops) of index/slice reads and writes, appends and searches on a buffer of "
            "<=48 bytes, alphabet of 3 byte values + padding so searches hit; non-trivial = >=3 ops; "
            "distinct = distinct event-log digest (every op with its result)")
    real_components = ["miasm.loader.strpatchwork.StrPatchwork (real code)"]
    stub_components = ["reference model: bytearray + padding rule"]
    assumptions = ["indices and slice bounds are non-negative; slice writes have the length of the slice (closed) "
                   "or extend the buffer (open-ended)"]
    quick_runs = 40000
    thorough_runs = 800000
    chunk = 500
    expected_probes = ["read_at_end", "read_past_end", "slice_past_end", "write_past_end", "append",
                       "find_after_append", "find_after_write", "find_hit", "find_miss", "slice_step",
                       "open_slice_write"]

    def setup(self):
        from miasm.loader.strpatchwork import StrPatchwork
        self.SP = StrPatchwork

    ALPHA = [0x41, 0x42, 0x00, 0x43]

    def _bytes(self, rng, n):
        return [rng.choice(self.ALPHA) for _ in range(n)]

    def gen(self, rng, steer):
        init = self._bytes(rng, rng.choice([0, 0, 1, 3, 8, 16]))
        pad = rng.choice([0, 0, 0x20, 0x41])
        cfg = {"init": init, "pad": pad}
        n = rng.randint(1, 40)
        kinds = ["idx", "idx", "slice", "slice", "w", "w", "w", "ws", "wo", "add", "add",
                 "find", "find", "find", "rfind", "in", "len", "bytes"]
        only = rng.random() < 0.3
        if only:
            kinds = rng.sample(kinds, 5) + ["find", "w"]
        actions = []
        size = len(init)
        for _ in range(n):
            k = rng.choice(kinds)
            hi = size + 6
            if k == "idx":
                actions.append([k, rng.choice([rng.randrange(hi + 1), size, max(size - 1, 0), size + 1])])
            elif k == "slice":
                a = rng.choice([None, rng.randrange(hi + 1)])
                b = rng.choice([None, rng.randrange(hi + 4), size, size + 1])
                st = rng.choice([None, None, None, 1, 2, 3])
                actions.append([k, a, b, st])
            elif k == "w":
                off = rng.choice([rng.randrange(hi + 1), size, size + rng.randint(1, 5)])
                val = self._bytes(rng, rng.randint(1, 5))
                actions.append([k, off, val])
                size = max(size, off + len(val))
            elif k == "ws":
                a = rng.randrange(hi + 1)
                ln = rng.randint(0, 5)
                actions.append([k, a, a + ln, self._bytes(rng, ln)])
                size = max(size, a + ln)
            elif k == "wo":
                a = rng.randrange(size + 1)
                val = self._bytes(rng, rng.randint(0, 5))
                actions.append([k, a, val])
                size = a + len(val)
            elif k == "add":
                val = self._bytes(rng, rng.randint(0, 6))
                actions.append([k, val])
                size += len(val)
            elif k in ("find", "rfind"):
                pat = self._bytes(rng, rng.randint(1, 3))
                start = rng.choice([None, None, rng.randrange(hi + 1)])
                end = rng.choice([None, None, rng.randrange(hi + 4)])
                if start is None and end is not None:
                    start = 0
                actions.append([k, pat, start, end])
            elif k == "in":
                actions.append([k, self._bytes(rng, rng.randint(1, 3))])
            else:
                actions.append([k])
            size = min(size, 4000)
        return {"cfg": cfg, "actions": actions}

    def simplify_action(self, a):
        k = a[0]
        if k == "w" and len(a[2]) > 1:
            yield [k, a[1], a[2][:1]]
        if k == "add" and len(a[1]) > 1:
            yield [k, a[1][:1]]
        if k in ("find", "rfind"):
            if a[2] is not None or a[3] is not None:
                yield [k, a[1], None, None]
            if len(a[1]) > 1:
                yield [k, a[1][:1], a[2], a[3]]
        if k == "slice" and a[3] is not None:
            yield [k, a[1], a[2], None]

    def simplify_cfg(self, cfg):
        if cfg["init"]:
            yield dict(cfg, init=[])
        if cfg["pad"]:
            yield dict(cfg, pad=0)

    def make_world(self, cfg, log):
        w = World()
        w.pad = bytes([cfg["pad"]])
        w.sp = self.SP(bytes(cfg["init"]), paddingbyte=w.pad)
        w.model = bytearray(cfg["init"])
        w.last_mut = None
        return w

    def apply(self, w, a, log):
        sp, m, pad = w.sp, w.model, w.pad
        k = a[0]
        facts = {"op": k}
        res = exc = None
        want = None
        try:
            if k == "idx":
                i = a[1]
                if i == len(m):
                    w.probe("read_at_end")
                    facts["where"] = "at_end"
                elif i > len(m):
                    w.probe("read_past_end")
                    facts["where"] = "past_end"
                want = bytes(m[i:i + 1]) if i < len(m) else pad
                res = sp[i]
            elif k == "slice":
                s = slice(a[1], a[2], a[3])
                mm = m
                if a[2] is not None and a[2] > len(m):
                    w.probe("slice_past_end")
                    mm = m + pad * (a[2] - len(m))
                if a[3] not in (None, 1):
                    w.probe("slice_step")
                want = bytes(mm[s])
                res = sp[s]
            elif k == "w":
                off, val = a[1], bytes(a[2])
                if off + len(val) > len(m):
                    w.probe("write_past_end")
                    m.extend(pad * (off + len(val) - len(m)))
                m[off:off + len(val)] = val
                w.last_mut = "w"
                sp[off] = val
            elif k == "ws":
                lo, hi, val = a[1], a[2], bytes(a[3])
                if hi > len(m):
                    w.probe("write_past_end")
                    m.extend(pad * (hi - len(m)))
                m[lo:hi] = val
                w.last_mut = "w"
                sp[lo:hi] = val
            elif k == "wo":
                lo, val = a[1], bytes(a[2])
                w.probe("open_slice_write")
                m[lo:] = val
                w.last_mut = "w"
                sp[lo:] = val
            elif k == "add":
                val = bytes(a[1])
                w.probe("append")
                m.extend(val)
                if val:
                    w.last_mut = "add"
                sp += val
                w.sp = sp
            elif k in ("find", "rfind"):
                pat = bytes(a[1])
                args = [pat]
                if a[2] is not None:
                    args.append(a[2])
                    if a[3] is not None:
                        args.append(a[3])
                want = getattr(bytes(m), k)(*args)
                if w.last_mut == "add":
                    w.probe("find_after_append")
                elif w.last_mut == "w":
                    w.probe("find_after_write")
                facts["after"] = w.last_mut
                w.last_mut = None
                w.probe("find_hit" if want >= 0 else "find_miss")
                res = getattr(sp, k)(*args)
            elif k == "in":
                want = bytes(a[1]) in bytes(m)
                res = bytes(a[1]) in sp
            elif k == "len":
                want = len(m)
                res = len(sp)
            elif k == "bytes":
                want = bytes(m)
                res = bytes(sp)
        except Exception as e:  # the API has no documented failure for these inputs
            exc = "%s: %s" % (type(e).__name__, e)
        log.add(k, a[1:], "->", res, exc)
        if exc is not None:
            cls = "C33/read-raises" if k in ("idx", "slice", "find", "rfind", "in", "len", "bytes") else "C33/write-raises"
            raise Violation(cls, "%s %s raised %s" % (k, a[1:], exc), facts)
        if k in ("idx", "slice", "in", "len", "bytes") and res != want:
            raise Violation("C33/wrong-read", "%s %s returned %r, model %r" % (k, a[1:], res, want), facts)
        if k in ("find", "rfind") and res != want:
            raise Violation("C33/stale-search", "%s %s returned %r, model %r" % (k, a[1:], res, want), facts)

    def invariant(self, w, log):
        real = bytes(w.sp)
        if real != bytes(w.model):
            raise Violation("C33/wrong-content", "content %r, model %r" % (real, bytes(w.model)), {"op": "invariant"})


_M = C33()


def get_machine(pid):
    return _M
