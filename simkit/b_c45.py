"""C45 — import stub registration histories against an injective-map model.

Model: (canonical library, function) -> address, and its inverse.  Histories
register libraries (case / extension / padding variants of a few names) and
functions (names and ordinals), singly and in bulk so that libraries with
hundreds of imports are reached; unknown library bases are the fault path.
"""
from simkit.core import Violation
from simkit.opmachine import OpMachine, World

LIBS = ["kernel32", "user32", "ntdll", "msvcrt", "libc.so.6", "ws2_32.drv",
        # distinct libraries whose canonical names (text before the first dot) coincide
        "ws2_32", "libcrypto.so.1.1", "libcrypto.so.3", "winspool.drv", "winspool",
        # "ws2.dll"!"32_f1" and "ws2_32.dll"!"f1" flatten to the same "ws2_32_f1"
        "ws2"]
TWINS = [[5, 6], [7, 8], [9, 10], [6, 11], [5, 11]]


def variant(name, v):
    base = name
    if v == 1:
        base = name.upper()
    elif v == 2:
        base = " " + name + " "
    elif v == 3 and "." not in name:
        base = name + ".dll"
    elif v == 4 and "." not in name:
        base = name.capitalize() + ".DLL"
    return base


def canon_lib(name):
    name = name.lower().strip(" ")
    if "." not in name:
        name += ".dll"
    return name


class C45(OpMachine):
    pid = "C45"
    title = "import stubs are distinct and stable"
    rule = ("seeded histories of library registrations (name variants) and function registrations (names, ordinals, "
            "with/without destination slot; bulk registrations of up to 300 functions) over <=5 libraries, up to ~700 "
            "functions per library; 30% of the histories use two libraries whose canonical names coincide; non-trivial = >=3 registrations; distinct = distinct event-log digest")
    real_components = ["miasm.jitter.loader.utils.libimp (real code)"]
    stub_components = ["reference model: (library, function) -> address dict and its inverse"]
    assumptions = ["cname2addr is judged only for canonical names that a single (library, function) pair produces"]
    quick_runs = 6000
    thorough_runs = 100000
    chunk = 100
    expected_probes = ["lib_new", "lib_again_variant", "func_new", "func_again", "ordinal", "unknown_base_fault",
                       "lib_over_255_funcs", "lib_over_600_funcs", "bulk", "dst_ad_given"]

    def setup(self):
        from miasm.jitter.loader.utils import libimp, canon_libname_libfunc
        self.libimp = libimp
        self.canon = canon_libname_libfunc

    def gen(self, rng, steer):
        nlib = rng.randint(1, 4)
        libs = rng.sample(range(len(LIBS)), nlib)
        if rng.random() < 0.3:
            libs = list(rng.choice(TWINS)) + libs[:rng.randint(0, 2)]
            libs = sorted(set(libs), key=libs.index)
        big = rng.random() < 0.5
        cfg = {"base": rng.choice([0x71111000, 0x10000000, 0x7ff00000])}
        actions = []
        n = rng.randint(1, 40)
        for _ in range(n):
            r = rng.random()
            lib = rng.choice(libs)
            if r < 0.15:
                actions.append(["lib", lib, rng.randrange(5)])
            elif r < 0.22:
                actions.append(["badbase", rng.choice([0, 0x1234, 0x71111004, 0x71112000 + 0x1000 * rng.randrange(8)])])
            elif r < 0.35 and big:
                actions.append(["bulk", lib, rng.randrange(5), rng.choice([0, 0, 100, 250]), rng.choice([10, 100, 260, 300])])
            else:
                if rng.random() < 0.25:
                    f = ["ord", rng.randrange(1, 40)]
                else:
                    f = ["name", rng.randrange(0, 60)]
                dst = rng.choice([None, None, 0x401000 + 4 * rng.randrange(64)])
                actions.append(["func", lib, rng.randrange(5), f, dst])
        return {"cfg": cfg, "actions": actions}

    def simplify_action(self, a):
        if a[0] == "bulk":
            if a[4] > 1:
                yield a[:4] + [a[4] // 2]
                yield a[:4] + [a[4] - 1]
            if a[3]:
                yield a[:3] + [0, a[4]]
        if a[0] in ("func", "bulk", "lib") and a[2]:
            yield a[:2] + [0] + a[3:]
        if a[0] == "func" and a[4] is not None:
            yield a[:4] + [None]

    def make_world(self, cfg, log):
        w = World()
        w.imp = self.libimp(cfg["base"])
        w.libs = {}       # canonical lib -> base
        w.funcs = {}      # (canonical lib, func) -> ad
        w.rev = {}        # ad -> (canonical lib, func)
        w.count = {}
        return w

    def _lib(self, w, idx, v, log):
        name = variant(LIBS[idx], v)
        c = canon_lib(name)
        base = w.imp.lib_get_add_base(name)
        facts = {"op": "lib"}
        if c in w.libs:
            w.probe("lib_again_variant")
            if base != w.libs[c]:
                raise Violation("C45/lib-base-unstable", "library %r got base %#x, earlier %#x" % (name, base, w.libs[c]), facts)
        else:
            w.probe("lib_new")
            if base in w.libs.values():
                raise Violation("C45/lib-base-shared", "library %r shares base %#x" % (name, base), facts)
            w.libs[c] = base
        return c, base

    def _func(self, w, c, base, func, dst, log):
        imp = w.imp
        ad = imp.lib_get_add_func(base, func, dst)
        n = w.count.get(c, 0)
        facts = {"op": "func", "funcs_in_lib": n, "over_255": n >= 255}
        key = (c, func)
        if key in w.funcs:
            w.probe("func_again")
            if ad != w.funcs[key]:
                raise Violation("C45/stub-unstable", "%s!%s got %#x, earlier %#x" % (c, func, ad, w.funcs[key]), facts)
        else:
            w.probe("func_new")
            if ad in w.rev:
                facts["other_same_lib"] = w.rev[ad][0] == c
                raise Violation("C45/stub-shared", "%s!%s got %#x which belongs to %s!%s (function #%d of its library)"
                                % (c, func, ad, w.rev[ad][0], w.rev[ad][1], n), facts)
            w.funcs[key] = ad
            w.rev[ad] = key
            w.count[c] = n + 1
            if n + 1 == 256:
                w.probe("lib_over_255_funcs")
            if n + 1 == 601:
                w.probe("lib_over_600_funcs")
        # reverse maps
        if imp.fad2info.get(ad) != (base, func):
            raise Violation("C45/reverse-map", "fad2info[%#x] = %r, expected %r" % (ad, imp.fad2info.get(ad), (base, func)), facts)
        cname = self.canon(c, func)
        if imp.fad2cname.get(ad) != cname:
            raise Violation("C45/reverse-map", "fad2cname[%#x] = %r, expected %r" % (ad, imp.fad2cname.get(ad), cname), facts)
        return ad

    def apply(self, w, a, log):
        k = a[0]
        if k == "lib":
            c, base = self._lib(w, a[1], a[2], log)
            log.add("lib", c, hex(base))
        elif k == "badbase":
            known = set(w.libs.values())
            if a[1] in known:
                return
            before = (dict(w.imp.fad2info), dict(w.imp.cname2addr))
            try:
                w.imp.lib_get_add_func(a[1], "f")
            except ValueError:
                w.probe("unknown_base_fault")
                if before != (dict(w.imp.fad2info), dict(w.imp.cname2addr)):
                    raise Violation("C45/reverse-map", "refused registration changed the tables", {"op": "badbase"})
                log.add("badbase refused")
                return
            raise Violation("C45/stub-shared", "registration on unknown library base %#x accepted" % a[1], {"op": "badbase"})
        elif k == "func":
            c, base = self._lib(w, a[1], a[2], log)
            func = a[3][1] if a[3][0] == "ord" else "f%d" % a[3][1]
            if LIBS[a[1]] == "ws2" and a[3][0] != "ord" and a[3][1] % 2:
                func = "32_" + func
            if a[3][0] == "ord":
                w.probe("ordinal")
            if a[4] is not None:
                w.probe("dst_ad_given")
            ad = self._func(w, c, base, func, a[4], log)
            log.add("func", c, func, hex(ad))
        elif k == "bulk":
            c, base = self._lib(w, a[1], a[2], log)
            w.probe("bulk")
            last = None
            for i in range(a[3], a[3] + a[4]):
                last = self._func(w, c, base, "b%d" % i, None, log)
            log.add("bulk", c, a[3], a[4], hex(last) if last is not None else None)

    def finish(self, w, log):
        imp = w.imp
        facts = {"op": "final"}
        # injectivity over everything registered, and inverse tables
        seen = {}
        cnames = {}
        for key, ad in w.funcs.items():
            if ad in seen:
                raise Violation("C45/stub-shared", "%r and %r share %#x" % (key, seen[ad], ad), facts)
            seen[ad] = key
            cnames.setdefault(str(self.canon(*key)), []).append(key)
            base = w.libs[key[0]]
            if imp.lib_get_add_func(base, key[1]) != ad:
                raise Violation("C45/stub-unstable", "%r no longer maps to %#x" % (key, ad), facts)
            if imp.fad2info.get(ad) != (base, key[1]):
                raise Violation("C45/reverse-map", "fad2info[%#x] = %r, expected %r" % (ad, imp.fad2info.get(ad), (base, key[1])), facts)
            if imp.fad2cname.get(ad) != self.canon(*key):
                raise Violation("C45/reverse-map", "fad2cname[%#x] = %r, expected %r"
                                % (ad, imp.fad2cname.get(ad), self.canon(*key)), facts)
        for key, ad in w.funcs.items():
            cn = self.canon(*key)
            if len(cnames[str(cn)]) == 1 and imp.cname2addr.get(cn) != ad:
                raise Violation("C45/reverse-map", "cname2addr[%r] = %r, expected %#x" % (cn, imp.cname2addr.get(cn), ad), facts)
        if set(imp.fad2info) != set(seen):
            raise Violation("C45/reverse-map", "fad2info lists %d addresses, %d registered" % (len(imp.fad2info), len(seen)), facts)
        log.add("final", len(seen))


_M = C45()


def get_machine(pid):
    return _M
