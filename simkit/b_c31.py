"""C31 — recursive disassembly under a seeded work-list order.

The nondeterminism of this property is the processing order of
disasmEngine.apply_splitting's work list (a set of identity-hashed AsmBlock
objects: the order depends on allocation addresses and differs from process to
process).  The guarded seam `asmblock._verif_pick_block` (MIASM_VERIF=1) puts
that order under the simulator's PRNG: a run = (byte buffer, start offset,
engine options, sequence of work-list picks).

Oracle: structural invariants of the statement, computed from fresh
single-instruction decodes (not from the engine's blocks):
  a. the instructions of a block are consecutive and each equals the
     single-instruction decoding at its offset;
  b. no instruction address belongs to two blocks;
  c. a flow destination or fall-through that coincides with an instruction
     boundary of some block starts a block;
  d. the successors of a block are its decoded flow destinations plus its
     fall-through (see the stated relaxations);
  e. dont_dis / split_dis / lines_wd / blocs_wd are honoured;
  f. bbl_simplifier (merging blocks joined by a single edge) keeps every
     instruction-level path;
and, since the order must be unobservable, the graph obtained under the seeded
order equals the graph obtained under a second, different order.
"""
import random

from simkit.core import Violation
from simkit.opmachine import OpMachine, World

ARCHS = [("x86_32", 32), ("x86_64", 64), ("arml", "l"), ("mips32l", "l"), ("ppc32b", "b"), ("aarch64l", "l"), ("msp430", None)]
BASE = 0x1000


class C31(OpMachine):
    pid = "C31"
    title = "recursive disassembly yields a well-formed CFG"
    rule = ("seeded (buffer, start, options, work-list order): structured x86_32 programs from the simulator-A generator (also "
            "with flipped bytes), random and opcode-biased byte buffers for 7 architectures; options dont_dis, split_dis, lines_wd, "
            "blocs_wd, follow_call, dontdis_retcall drawn per run; the apply_splitting work list is drained in a seeded order and "
            "in a second order; non-trivial = >=2 blocks; distinct = distinct event-log digest (blocks, edges)")
    real_components = ["miasm.core.asmblock disasmEngine (_dis_block, dis_multiblock, apply_splitting, AsmBlock.split), AsmCFG, "
                       "bbl_simplifier", "miasm.arch.* decoders (single-instruction oracle and engine alike)"]
    stub_components = ["work-list chooser installed through the guarded seam asmblock._verif_pick_block"]
    assumptions = ["a block cut by lines_wd, by blocs_wd, or in front of an address that fails to decode may lack its fall-through "
                   "successor (counted, not judged)", "delay-slot architectures: the flow instruction is looked for among the last "
                   "1+delayslot lines", "single-instruction decoding is the ground truth for instruction identity (C14-C17 territory)"]
    quick_runs = 2500
    thorough_runs = 60000
    chunk = 100
    expected_probes = ["structured_program", "random_bytes", "overlapping_streams", "split_happened", "worklist_choice_points",
                       "split_dis_hit", "lines_wd_cut", "blocs_wd_cut", "bad_block", "merge_applied", "delayslot_arch",
                       "second_order_compared"]

    def setup(self):
        from miasm.analysis.machine import Machine as MiasmMachine
        from miasm.core import asmblock
        from miasm.core.locationdb import LocationDB
        from miasm.core.bin_stream import bin_stream_str
        from simkit import a_sim
        self.asmblock = asmblock
        if not asmblock._VERIF_HOOKS:
            raise RuntimeError("MIASM_VERIF=1 must be set before miasm is imported")
        self.LocationDB = LocationDB
        self.bin_stream_str = bin_stream_str
        self.machines = {name: MiasmMachine(name) for name, _ in ARCHS}
        self.a_sim = a_sim
        import logging
        logging.getLogger("asmblock").setLevel(logging.CRITICAL)

    # ---- generation ---------------------------------------------------------------
    def gen(self, rng, steer):
        r = rng.random()
        if r < 0.12:
            # overlapping instruction streams (x86): a long instruction whose tail bytes decode, from a
            # jump into its middle, as another long instruction straddling the following boundaries, and
            # further jumps to those boundaries: addresses that are an instruction start in one block and
            # the middle of an instruction in an overlapping one
            arch = "x86_32"
            nfill = rng.randint(3, 7)
            fill = [rng.choice([0x40, 0x41, 0x43, 0x90, 0x48]) for _ in range(nfill)]
            long1 = [0xB8, rng.getrandbits(8), rng.getrandbits(8), rng.getrandbits(8), rng.choice([0xB8, 0xB9, 0x05, 0x3D, 0x68])]
            tail = [0xC3] + [0x90] * 4
            njmp = rng.randint(2, 4)
            head_len = 2 * njmp
            a0 = head_len
            targets = [a0 + 4] + [a0 + 5 + rng.randrange(min(4, nfill)) for _ in range(njmp - 1)]
            rng.shuffle(targets)
            head = []
            for i, t in enumerate(targets):
                opc = rng.choice([0x74, 0x75, 0x72, 0x73, 0x7C])
                head += [opc, (t - (2 * i + 2)) & 0xFF]
            data = bytearray(head + long1 + fill + tail)
            kind = "overlap"
            cfg = {"arch": arch, "data": list(data), "kind": kind, "start": 0, "dont_dis": [], "split_dis": [],
                   "lines_wd": rng.choice([None, None, 5]), "blocs_wd": None, "follow_call": False, "dontdis_retcall": False,
                   "merge": rng.random() < 0.3}
            picks = [rng.randrange(8) for _ in range(rng.randint(0, 24))]
            return {"cfg": cfg, "actions": [["pick", p] for p in picks] or [["pick", 0]]}
        if r < 0.5:
            arch = "x86_32"
            feat = set(f for f in ["mem", "stack", "call", "loop", "branch", "indirect", "rep"] if rng.random() < 0.6)
            lines = self.a_sim.gen_program_x86(rng, feat)
            try:
                prog = self.a_sim.Program("x86_32", lines)
                data = bytearray(prog.code)
            except self.a_sim.Discard:
                data = bytearray(rng.getrandbits(8) for _ in range(32))
            kind = "structured"
            if rng.random() < 0.3:
                for _ in range(rng.randint(1, 3)):
                    data[rng.randrange(len(data))] = rng.getrandbits(8)
                kind = "structured+flips"
            # jumps into the middle of blocks: short backward/forward jumps appended
            if rng.random() < 0.5:
                for _ in range(rng.randint(1, 3)):
                    data += bytes([rng.choice([0xEB, 0x74, 0x75, 0x72]), rng.choice([0xF0, 0xF8, 0x02, 0xE0, 0xD0, 0x05])])
        else:
            arch = rng.choice([a for a, _ in ARCHS])
            n = rng.choice([8, 16, 32, 48])
            if arch.startswith("x86"):
                pool = [0x90, 0xEB, 0x74, 0x75, 0xE8, 0xE9, 0xC3, 0x40, 0x50, 0x58, 0x01, 0x89, 0x00, 0x02, 0xFE, 0xF8, 0x05, 0xFF, 0xE0]
                data = bytearray(rng.choice(pool) if rng.random() < 0.8 else rng.getrandbits(8) for _ in range(n))
            else:
                data = bytearray(rng.getrandbits(8) for _ in range(n))
            kind = "random"
        cfg = {"arch": arch, "data": list(data), "kind": kind,
               "start": rng.choice([0, 0, 0, rng.randrange(len(data))]),
               "dont_dis": [rng.randrange(len(data)) for _ in range(rng.choice([0, 0, 1, 2]))],
               "split_dis": [rng.randrange(len(data)) for _ in range(rng.choice([0, 0, 1, 2]))],
               "lines_wd": rng.choice([None, None, 1, 2, 3, 5]),
               "blocs_wd": rng.choice([None, None, None, 1, 2, 4, 8]),
               "follow_call": rng.random() < 0.5, "dontdis_retcall": rng.random() < 0.3,
               "merge": rng.random() < 0.5}
        picks = [rng.randrange(8) for _ in range(rng.randint(0, 24))]
        return {"cfg": cfg, "actions": [["pick", p] for p in picks] or [["pick", 0]]}

    def simplify_action(self, a):
        if a[1]:
            yield ["pick", 0]

    def simplify_cfg(self, cfg):
        for key, val in (("dont_dis", []), ("split_dis", []), ("lines_wd", None), ("blocs_wd", None),
                         ("follow_call", False), ("dontdis_retcall", False), ("merge", False), ("start", 0)):
            if cfg[key] != val:
                yield dict(cfg, **{key: val})
        d = cfg["data"]
        if len(d) > 4:
            yield dict(cfg, data=d[:len(d) - 2])

    # ---- one disassembly under a given pick order ------------------------------------
    def _disasm(self, cfg, picks, counter):
        m = self.machines[cfg["arch"]]
        attrib = dict(ARCHS)[cfg["arch"]]
        loc_db = self.LocationDB()
        data = bytes(cfg["data"])
        bs = self.bin_stream_str(data, base_address=BASE)
        mdis = m.dis_engine(bs, loc_db=loc_db)
        mdis.dont_dis = [BASE + o for o in cfg["dont_dis"]]
        mdis.split_dis = [BASE + o for o in cfg["split_dis"]]
        mdis.lines_wd = cfg["lines_wd"]
        mdis.blocs_wd = cfg["blocs_wd"]
        mdis.follow_call = cfg["follow_call"]
        mdis.dontdis_retcall = cfg["dontdis_retcall"]
        calls = [0]
        real = mdis._dis_block

        def counting(offset, job_done=None):
            calls[0] += 1
            return real(offset, job_done)
        mdis._dis_block = counting
        state = {"i": 0}

        def pick(todo):
            blocks = sorted(todo, key=lambda b: (loc_db.get_location_offset(b.loc_key) or 0, len(b.lines)))
            if len(blocks) > 1:
                counter["choices"] = counter.get("choices", 0) + 1
            k = picks[state["i"]] if state["i"] < len(picks) else 0
            state["i"] += 1
            return blocks[k % len(blocks)]
        self.asmblock._verif_pick_block = pick
        try:
            asmcfg = mdis.dis_multiblock(BASE + cfg["start"])
        finally:
            self.asmblock._verif_pick_block = None
        return m, attrib, loc_db, bs, mdis, asmcfg, calls[0]

    def _shape(self, loc_db, asmcfg):
        """Canonical description of a graph: blocks (start, instruction offsets), edges with kinds."""
        blocks = []
        for b in asmcfg.blocks:
            off = loc_db.get_location_offset(b.loc_key)
            bad = isinstance(b, self.asmblock.AsmBlockBad)
            blocks.append((off, tuple(l.offset for l in b.lines), bad,
                           tuple(sorted((loc_db.get_location_offset(c.loc_key), c.c_t) for c in b.bto))))
        edges = sorted((loc_db.get_location_offset(s), loc_db.get_location_offset(d), asmcfg.edges2constraint[(s, d)])
                       for s, d in asmcfg.edges())
        return sorted(blocks), edges

    def make_world(self, cfg, log):
        w = World()
        w.cfg = cfg
        w.picks = []
        return w

    def apply(self, w, a, log):
        w.picks.append(a[1])

    def finish(self, w, log):
        cfg = w.cfg
        facts = {"arch": cfg["arch"], "kind": cfg["kind"], "lines_wd": cfg["lines_wd"], "blocs_wd": cfg["blocs_wd"]}
        w.probe({"structured": "structured_program", "structured+flips": "structured_program",
                 "overlap": "overlapping_streams"}.get(cfg["kind"], "random_bytes"))
        counter = {}
        try:
            m, attrib, loc_db, bs, mdis, asmcfg, ncalls = self._disasm(cfg, w.picks, counter)
        except Exception as e:
            import traceback
            frames = traceback.extract_tb(e.__traceback__)
            if any(f.filename.endswith("core/cpu.py") and f.name == "dis" for f in frames):
                # the single-instruction decoder itself raised on these bytes: decoder robustness is
                # C14-C17 territory, the engine cannot be judged on this buffer
                w.probe("decoder_raised_discarded")
                log.add("discard: decoder raised", type(e).__name__)
                return
            raise Violation("C31/engine-raises", "dis_multiblock raised %s: %s" % (type(e).__name__, str(e)[:120]), facts)
        w.probe("worklist_choice_points", counter.get("choices", 0))
        shape = self._shape(loc_db, asmcfg)
        # The exploration order of dis_multiblock itself (iteration over a block's constraint set, another
        # identity-hashed set that no seam controls) legitimately decides the result in two situations:
        # when blocs_wd stops the exploration, and when instruction streams overlap (whichever stream is
        # decoded first owns the shared bytes).  The structural clauses are judged on whatever graph comes
        # out; the graph itself is then neither logged nor compared between orders.
        byte_owner = {}
        for b in asmcfg.blocks:
            for l in b.lines:
                for k in range(1, l.l):
                    byte_owner[l.offset + k] = l.offset
        dests = set()
        for b in asmcfg.blocks:
            for c in b.bto:
                dests.add(loc_db.get_location_offset(c.loc_key))
        order_sensitive = (cfg["blocs_wd"] is not None and ncalls >= cfg["blocs_wd"]) or any(d in byte_owner for d in dests)
        if order_sensitive:
            w.probe("exploration_order_sensitive")
            log.add("shape not logged: exploration-order sensitive")
        else:
            log.add("shape", shape)
        if m.mn.delayslot if hasattr(m.mn, "delayslot") else False:
            w.probe("delayslot_arch")
        self._check_graph(w, cfg, m, attrib, loc_db, bs, asmcfg, ncalls, facts)
        # the order must be unobservable: a second, different order gives the same graph
        other = [(p + 1 + i) % 7 for i, p in enumerate(w.picks)] + [3, 1, 2]
        c2 = {}
        try:
            m2, a2, loc_db2, bs2, mdis2, asmcfg2, _ = self._disasm(cfg, other, c2)
        except Exception as e:
            raise Violation("C31/order-dependent", "second work-list order raised %s" % type(e).__name__, facts)
        shape2 = self._shape(loc_db2, asmcfg2)
        w.probe("second_order_compared")
        if shape2 != shape and not order_sensitive:
            raise Violation("C31/order-dependent", "two work-list orders give different graphs: %s vs %s"
                            % (self._diff(shape, shape2), ""), facts)
        if cfg["merge"]:
            self._check_merge(w, cfg, m, loc_db, asmcfg, facts)
        w.nontrivial = len(shape[0]) >= 2

    @staticmethod
    def _diff(s1, s2):
        b1, b2 = set(s1[0]), set(s2[0])
        return "blocks only in first %s, only in second %s; edges only in first %s, only in second %s" % (
            sorted(b1 - b2)[:3], sorted(b2 - b1)[:3], sorted(set(s1[1]) - set(s2[1]))[:3], sorted(set(s2[1]) - set(s1[1]))[:3])

    def run(self, case, keep_log=False):
        res = OpMachine.run(self, case, keep_log)
        return res

    # ---- oracle ---------------------------------------------------------------------------
    def _decode(self, m, attrib, bs, off):
        try:
            return m.mn.dis(bs, attrib, off)
        except Exception:
            return None

    def _check_graph(self, w, cfg, m, attrib, loc_db, bs, asmcfg, ncalls, facts):
        Bad = self.asmblock.AsmBlockBad
        owner = {}
        starts = {}
        blocks = list(asmcfg.blocks)
        dont = set(BASE + o for o in cfg["dont_dis"])
        splits = set(BASE + o for o in cfg["split_dis"])
        nsplit_blocks = 0
        for b in blocks:
            boff = loc_db.get_location_offset(b.loc_key)
            if isinstance(b, Bad):
                w.probe("bad_block")
                continue
            if not b.lines:
                raise Violation("C31/empty-block", "block at %#x has no instruction" % boff, facts)
            if b.lines[0].offset != boff:
                raise Violation("C31/not-consecutive", "block labelled %#x starts with the instruction at %#x" % (boff, b.lines[0].offset), facts)
            starts[boff] = b
            prev = None
            for i, line in enumerate(b.lines):
                if prev is not None and line.offset != prev.offset + prev.l:
                    raise Violation("C31/not-consecutive", "block %#x: instruction at %#x follows the one at %#x of length %d"
                                    % (boff, line.offset, prev.offset, prev.l), facts)
                fresh = self._decode(m, attrib, bs, line.offset)
                if fresh is None or fresh.l != line.l or fresh.name != line.name or fresh.b != line.b:
                    raise Violation("C31/wrong-instruction", "block %#x holds %r at %#x, single decoding gives %r"
                                    % (boff, str(line), line.offset, str(fresh)), facts)
                if line.offset in owner:
                    raise Violation("C31/overlap", "instruction at %#x belongs to the blocks %#x and %#x"
                                    % (line.offset, owner[line.offset], boff), facts)
                owner[line.offset] = boff
                if line.offset in dont:
                    w.probe("dont_dis_hit")
                    raise Violation("C31/option-ignored", "forbidden address %#x was disassembled (block %#x)" % (line.offset, boff), facts)
                if i > 0 and line.offset in splits:
                    raise Violation("C31/option-ignored", "forced split address %#x lies inside block %#x" % (line.offset, boff), facts)
                if i == 0 and line.offset in splits:
                    w.probe("split_dis_hit")
                prev = line
            if cfg["lines_wd"] is not None:
                # a branch is never separated from its delay slot: the slot may exceed the limit
                slot_extra = b.lines[0].delayslot if any(l.breakflow() for l in b.lines[-1 - b.lines[0].delayslot:]) else 0
                if len(b.lines) > cfg["lines_wd"] + slot_extra:
                    raise Violation("C31/option-ignored", "block %#x has %d instructions, lines_wd is %d"
                                    % (boff, len(b.lines), cfg["lines_wd"]), facts)
                if len(b.lines) == cfg["lines_wd"]:
                    w.probe("lines_wd_cut")
        if cfg["blocs_wd"] is not None:
            if ncalls > cfg["blocs_wd"]:
                raise Violation("C31/option-ignored", "%d blocks were disassembled, blocs_wd is %d" % (ncalls, cfg["blocs_wd"]), facts)
            if ncalls == cfg["blocs_wd"]:
                w.probe("blocs_wd_cut")
        if len(blocks) > ncalls:
            w.probe("split_happened")
        # c. destinations on instruction boundaries start blocks; d. successors
        for b in blocks:
            if isinstance(b, Bad):
                continue
            boff = loc_db.get_location_offset(b.loc_key)
            got = {}
            for c in b.bto:
                doff = loc_db.get_location_offset(c.loc_key)
                got[doff] = c.c_t
                if doff in owner and doff not in starts:
                    raise Violation("C31/target-inside-block", "block %#x goes to %#x, which is inside block %#x and does not start a block"
                                    % (boff, doff, owner[doff]), facts)
            # expected successors from the decoded instructions
            delay = b.lines[0].delayslot if hasattr(b.lines[0], "delayslot") else 0
            flow = None
            for line in b.lines[max(0, len(b.lines) - 1 - delay):]:
                if line.breakflow():
                    flow = line
                    break
            last = b.lines[-1]
            nxt = last.offset + last.l
            want = set()
            may_miss = set()
            if flow is None:
                want.add(nxt)
            else:
                if flow.dstflow():
                    fresh = self._decode(m, attrib, bs, flow.offset)
                    if fresh is not None:
                        fresh.dstflow2label(loc_db)
                        if (not fresh.is_subcall()) or cfg["follow_call"]:
                            for dst in fresh.getdstflow(loc_db):
                                if dst.is_loc():
                                    want.add(loc_db.get_location_offset(dst.loc_key))
                if flow.splitflow() and not (flow.is_subcall() and cfg["dontdis_retcall"]):
                    want.add(nxt)
            # stated relaxations: cuts by limits / undecodable or forbidden next address
            cut = (cfg["lines_wd"] is not None and len(b.lines) >= cfg["lines_wd"]) or cfg["blocs_wd"] is not None
            if nxt in want and (cut or self._decode(m, attrib, bs, nxt) is None or nxt in dont or flow is not last):
                may_miss.add(nxt)
            extra = set(got) - want
            missing = want - set(got) - may_miss
            if flow is not None and (flow is not last or getattr(flow, "delayslot", 0)):
                # delay slot handling by the engine is not re-modelled beyond the destinations
                # (a branch whose slot fails to decode keeps a c_next to the slot address)
                extra -= {nxt}
            if missing or extra:
                raise Violation("C31/wrong-successors", "block %#x (last %r): successors %s, decoded flow gives %s"
                                % (boff, str(last), sorted(hex(x) for x in got if x is not None), sorted(hex(x) for x in want if x is not None)),
                                dict(facts, missing=bool(missing), extra=bool(extra)))
            # edges mirror constraints to present blocks
            for doff, kind in got.items():
                dkey = loc_db.get_offset_location(doff)
                present = asmcfg.loc_key_to_block(dkey) is not None
                has_edge = (b.loc_key, dkey) in asmcfg.edges2constraint
                if present != has_edge:
                    raise Violation("C31/edge-mismatch", "block %#x -> %#x: destination present %s, edge %s" % (boff, doff, present, has_edge), facts)
                if not present and cfg["blocs_wd"] is None and doff is not None:
                    # without a block-count limit the exploration is exhaustive: every destination
                    # gets a block of its own (a bad one when it cannot be decoded or is forbidden)
                    w.probe("dest_absent")
                    raise Violation("C31/successor-not-explored", "block %#x -> %#x: no block-count limit, but the destination was never "
                                    "disassembled (it stays pending)" % (boff, doff), facts)

    def _check_merge(self, w, cfg, m, loc_db, asmcfg, facts):
        """bbl_simplifier must keep every instruction-level path."""
        Bad = self.asmblock.AsmBlockBad

        def relation(graph):
            succ = {}
            first = {}
            for b in graph.blocks:
                if isinstance(b, Bad) or not b.lines:
                    continue
                first[loc_db.get_location_offset(b.loc_key)] = b.lines[0].offset
            for b in graph.blocks:
                if isinstance(b, Bad) or not b.lines:
                    continue
                for x, y in zip(b.lines, b.lines[1:]):
                    succ.setdefault(x.offset, set()).add(y.offset)
                last = b.lines[-1].offset
                succ.setdefault(last, set())
                for c in b.bto:
                    d = loc_db.get_location_offset(c.loc_key)
                    if d in first:
                        # destinations that are not in the graph are not paths of the graph: not judged
                        succ[last].add(first[d])
            return succ
        before = relation(asmcfg)
        lines_before = {}
        for b in asmcfg.blocks:
            for l in b.lines:
                lines_before[l.offset] = l
        if any(l.delayslot for l in lines_before.values() if hasattr(l, "delayslot")):
            return      # merging is documented as not implemented with delay slots
        try:
            merged = self.asmblock.bbl_simplifier.apply_simp(asmcfg)
        except Exception as e:
            raise Violation("C31/merge", "bbl_simplifier raised %s: %s" % (type(e).__name__, str(e)[:100]), facts)
        w.probe("merge_applied")
        after = relation(merged)
        removed = set(before) - set(after)
        for off in removed:
            l = lines_before[off]
            # a flow instruction all of whose successors are the merged successor is redundant for the
            # paths of the graph (side effects such as LOOP's counter are not judged here)
            if not (l.breakflow() and l.dstflow() and len(before[off]) == 1):
                raise Violation("C31/merge", "merging dropped the instruction at %#x (%s)" % (off, l), facts)

        def skip(o):
            seen = set()
            while o in removed and o not in seen:
                seen.add(o)
                o = next(iter(before[o]))
            return o
        for off in after:
            want = set(skip(x) if not isinstance(x, tuple) else x for x in before[off])
            if after[off] != want:
                raise Violation("C31/merge", "after merging, the instruction at %#x is followed by %s, before by %s"
                                % (off, sorted(map(str, after[off])), sorted(map(str, want))), facts)


_M = C31()


def get_machine(pid):
    return _M
