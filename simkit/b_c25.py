"""C25 — binary streams over four source kinds against a byte-segment model.

Sources: bin_stream_str (bytes), bin_stream_file (file object), bin_stream_pe
(PE image built and re-parsed with miasm's loader), bin_stream_vm (real VmMngr
with pages and holes; pages are mapped and unmapped between operations).
Model: list of (start address, bytes) segments.

Operations: getbytes, getbits (bit offsets inside, across and beyond segment
ends), get_u8..64 in the configured / explicit byte order, readbs/setoffset
(cursor), explicit enter/leave_atomic_mode around reads, and real instruction
decodes (mn.dis of six architectures) near segment ends, during which every
read the decoder makes through the stream is recorded and compared with the
model (cached reads == uncached reads == source bytes).

Faults: reads beyond the source or into a hole (must raise IOError, nothing
else), a source that raises in the middle of a decode, holes appearing and
disappearing between operations.
"""
import io
import os

from simkit.core import Violation
from simkit.opmachine import OpMachine, World

ARCHS = [("x86_32", None), ("arml", None), ("mips32l", None), ("ppc32b", None), ("aarch64l", None), ("msp430", None)]


class C25(OpMachine):
    pid = "C25"
    title = "binary streams return exactly the underlying bits"
    rule = ("seeded histories (1-30 ops) of byte/bit/integer reads, cursor moves, atomic-mode sections and instruction "
            "decodes on str/file/PE/VmMngr sources of <=64 bytes per segment with <=2 holes, addresses drawn around "
            "segment starts and ends; non-trivial = >=3 ops; distinct = distinct event-log digest")
    real_components = ["miasm.core.bin_stream (all stream classes)", "miasm.core.cpu cls_mn.dis of 6 architectures (workload)",
                       "miasm.loader.pe_init (PE source)", "VmMngr C extension built from the tree (vm source)"]
    stub_components = ["reference model: byte segments", "io.BytesIO as the file object"]
    assumptions = ["PE source: reads are issued inside section ranges (raw data + zero fill) or beyond the image; gaps between "
                   "sections and the header are not judged", "ELF source: two sample binaries of the tree; reads are judged inside the file-backed part of one PT_LOAD segment (parsed independently) or beyond the image",
                   "whether a failed decode leaves atomic mode on is counted (probe), not judged: the statement does not say"]
    quick_runs = 12000
    thorough_runs = 200000
    chunk = 200
    expected_probes = ["getbytes_ok", "getbytes_fault", "getbits_ok", "getbits_fault", "getbits_cross_byte", "get_u_ok",
                       "get_u_fault", "get_u_big_endian", "readbs_ok", "readbs_fault", "atomic_section", "atomic_cached_hit",
                       "dis_ok", "dis_failed", "dis_reads_checked", "dis_fault_mid_decode", "vm_unmap", "vm_map",
                       "src_str", "src_file", "src_pe", "src_vm", "src_elf", "cursor_moved_then_read", "atomic_two_streams"]

    needs_build = True
    isolate_shrink = True

    def setup(self):
        from simkit import build
        build.activate()
        from miasm.core import bin_stream as bsm
        from miasm.core.utils import LITTLE_ENDIAN, BIG_ENDIAN
        from miasm.analysis.machine import Machine as MiasmMachine
        from miasm.jitter import VmMngr
        from miasm.loader import pe_init
        self.bsm = bsm
        self.LE, self.BE = LITTLE_ENDIAN, BIG_ENDIAN
        self.VmMngr = VmMngr
        self.pe_init = pe_init
        self.mns = []
        for name, _ in ARCHS:
            m = MiasmMachine(name)
            attrib = {"x86_32": 32, "arml": "l", "mips32l": "l", "ppc32b": "b", "aarch64l": "l", "msp430": None}[name]
            self.mns.append((name, m.mn, attrib))
        self.pe_cache = {}
        # ELF containers: sample binaries shipped in the tree; the model is built from the PT_LOAD
        # program headers parsed here with struct, not with miasm's loader
        import struct
        from miasm.loader import elf_init
        self.elf_init = elf_init
        self.elfs = []
        from simkit.core import REPO
        for rel in ("example/samples/md5_arm", "test/os_dep/linux/test_env.x86_64"):
            path = os.path.join(REPO, rel)
            try:
                raw = open(path, "rb").read()
            except IOError:
                continue
            is64 = raw[4] == 2
            segs = []
            if is64:
                phoff, = struct.unpack_from("<Q", raw, 0x20)
                phentsize, phnum = struct.unpack_from("<HH", raw, 0x36)
                for i in range(phnum):
                    p_type, p_flags, p_offset, p_vaddr, p_paddr, p_filesz, p_memsz = struct.unpack_from("<IIQQQQQ", raw, phoff + i * phentsize)
                    if p_type == 1 and p_filesz:
                        segs.append([p_vaddr, raw[p_offset:p_offset + p_filesz]])
            else:
                phoff, = struct.unpack_from("<I", raw, 0x1C)
                phentsize, phnum = struct.unpack_from("<HH", raw, 0x2A)
                for i in range(phnum):
                    p_type, p_offset, p_vaddr, p_paddr, p_filesz, p_memsz = struct.unpack_from("<IIIIII", raw, phoff + i * phentsize)
                    if p_type == 1 and p_filesz:
                        segs.append([p_vaddr, raw[p_offset:p_offset + p_filesz]])
            if segs:
                self.elfs.append((rel, raw, segs))

    # ---- generation -------------------------------------------------------------
    def gen(self, rng, steer):
        kind = rng.choice(["str", "file", "vm", "vm", "pe", "elf"])
        if kind == "elf" and not self.elfs:
            kind = "str"
        nseg = 1 if kind in ("str", "file") else rng.randint(1, 3)
        segs = []
        addr = rng.choice([0, 0, 0x10, 0x1000, 0x400000])
        for i in range(nseg):
            n = rng.choice([1, 2, 3, 7, 8, 16, 33, 64])
            data = [rng.choice([0x90, 0xC3, 0x00, 0xFF, 0x0F, 0xE8, 0x66, rng.getrandbits(8), rng.getrandbits(8)]) for _ in range(n)]
            segs.append([addr, data])
            addr += n + rng.choice([0, 0, 1, 5, 0x40])     # adjacent pages or a hole
        cfg = {"kind": kind, "segs": segs, "base_offset": rng.choice([0, 0, 0x100]) if kind == "vm" else 0,
               "big_endian": rng.random() < 0.3}
        if kind == "elf":
            cfg["elf"] = rng.randrange(len(self.elfs))
            cfg["segs"] = []
            nseg = len(self.elfs[cfg["elf"]][2])
        actions = []
        kinds = ["getbytes"] * 4 + ["getbits"] * 5 + ["get_u"] * 3 + ["readbs", "setoffset", "atomic"] + ["dis"] * 3
        if kind == "vm":
            kinds += ["vm_toggle"] * 2
        for _ in range(rng.randint(1, 30)):
            k = rng.choice(kinds)
            seg = rng.randrange(nseg)
            edge = rng.choice(["start", "end", "end"])
            delta = rng.randint(-9, 9)
            where = [seg, edge, delta]
            if k == "getbytes":
                actions.append([k, where, rng.choice([0, 1, 1, 2, 3, 4, 8, 9])])
            elif k == "getbits":
                actions.append([k, where, rng.randrange(8), rng.choice([0, 1, 3, 7, 8, 9, 12, 16, 31, 32, 64, 65])])
            elif k == "get_u":
                actions.append([k, where, rng.choice([8, 16, 32, 64]), rng.choice([None, None, "le", "be"])])
            elif k == "readbs":
                actions.append([k, rng.choice([1, 2, 4, 8])])
            elif k == "setoffset":
                actions.append([k, where])
            elif k == "atomic":
                # a section: enter, n reads, leave
                reads = [[[rng.randrange(nseg), rng.choice(["start", "end"]), rng.randint(-6, 6)], rng.choice([1, 2, 4])]
                         for _ in range(rng.randint(1, 4))]
                if rng.random() < 0.6:
                    reads.append(list(reads[0]))      # same read twice: cache hit
                # a second stream over other bytes at the same addresses is in atomic mode at the same time
                actions.append([k, reads, rng.random() < 0.4])
            elif k == "dis":
                actions.append([k, where, rng.randrange(len(ARCHS))])
            elif k == "vm_toggle":
                actions.append([k, seg])
        return {"cfg": cfg, "actions": actions}

    def simplify_action(self, a):
        if a[0] == "atomic" and len(a[1]) > 1:
            yield [a[0], a[1][:-1]]
        if a[0] in ("getbytes", "getbits", "get_u", "setoffset", "dis") and a[1][2] != 0:
            yield [a[0], [a[1][0], a[1][1], 0]] + a[2:]

    # ---- world --------------------------------------------------------------------
    def make_world(self, cfg, log):
        w = World()
        w.cfg = cfg
        w.kind = kind = cfg["kind"]
        w.probe("src_" + kind)
        w.segs = [[s, bytes(d)] for s, d in cfg["segs"]]
        w.mapped = [True] * len(w.segs)
        w.be = False
        w.cursor = None
        bsm = self.bsm
        if kind == "str":
            base, data = w.segs[0]
            w.bs = bsm.bin_stream_str(data, base_address=base)
            w.cursor = 0   # bin_stream_str default offset is 0 (absolute)
            w.bs.setoffset(base)
            w.cursor = base
        elif kind == "file":
            base, data = w.segs[0]
            w.bs = bsm.bin_stream_file(io.BytesIO(data), base_address=base, offset=base)
            w.cursor = base
        elif kind == "vm":
            vm = self.VmMngr.Vm()
            vm.init_memory_page_pool()
            vm.init_code_bloc_pool()
            vm.init_memory_breakpoint()
            if cfg["big_endian"]:
                vm.set_big_endian()
                w.be = True
            else:
                vm.set_little_endian()
            w.vm = vm
            for i, (s, d) in enumerate(w.segs):
                vm.add_memory_page(s + cfg["base_offset"], 3, d, "seg%d" % i)
            w.bs = bsm.bin_stream_vm(vm, base_offset=cfg["base_offset"])
            w.cursor = 0
        elif kind == "pe":
            key = repr(cfg["segs"])
            # sections at 0x1000 * (2i+1), image re-parsed from bytes
            pe = self.pe_init.PE(wsize=32)
            for i, (s, d) in enumerate(w.segs):
                pe.SHList.add_section(name=".s%d" % i, addr=0x1000 * (2 * i + 1), data=d)
            pe = self.pe_init.PE(bytes(pe))
            base = pe.NThdr.ImageBase
            w.segs = [[base + 0x1000 * (2 * i + 1), d + b"\x00" * (0x1000 - len(d))] for i, (s, d) in enumerate(w.segs)]
            w.raw_len = [len(d) for s, d in cfg["segs"]]
            w.bs = bsm.bin_stream_pe(pe)
            w.max_addr = pe.virt.max_addr()
            w.cursor = 0
        elif kind == "elf":
            rel, raw, segs = self.elfs[cfg["elf"] % len(self.elfs)]
            elf = self.elf_init.ELF(raw)
            w.segs = [[a, d] for a, d in segs]
            w.mapped = [True] * len(w.segs)
            w.bs = self.bsm.bin_stream_elf(elf)
            w.max_addr = elf.virt.max_addr() + 0x1000
            w.cursor = 0
        w.bs_default_be = w.bs.endianness == self.BE
        # the peer: another stream instance over *other* bytes at the addresses of the first segment
        pbase, pdata = w.segs[0]
        w.peer_base, w.peer_data = pbase, bytes(b ^ 0xFF for b in pdata[:256])
        w.peer = bsm.bin_stream_str(w.peer_data, base_address=pbase)
        return w

    def _addr(self, w, where):
        seg, edge, delta = where
        s, d = w.segs[seg % len(w.segs)]
        if w.kind == "elf":
            if delta > 7:
                return w.max_addr + delta
            return (s if edge == "start" else s + len(d)) + (abs(delta) if edge == "start" else -abs(delta) - 1)
        if w.kind == "pe":
            # around the section start, around the end of raw data, or beyond the image
            if edge == "start":
                return s + abs(delta)
            if delta > 6:
                return w.max_addr + delta
            return s + w.raw_len[seg % len(w.segs)] + delta if w.raw_len[seg % len(w.segs)] + delta >= 0 else s
        return (s if edge == "start" else s + len(d)) + delta

    def _model_read(self, w, addr, n):
        """bytes of [addr, addr+n) or None if any byte is outside the source."""
        if addr < 0:
            return None
        out = bytearray()
        for a in range(addr, addr + n):
            b = None
            for i, (s, d) in enumerate(w.segs):
                if w.mapped[i] and s <= a < s + len(d):
                    b = d[a - s]
                    break
            if b is None:
                return None
            out.append(b)
        return bytes(out)

    def _judgeable(self, w, addr, n):
        """PE: only ranges inside one section or beyond the image are judged."""
        if w.kind not in ("pe", "elf"):
            return True
        if addr >= w.max_addr:
            return True
        return any(s <= addr and addr + n <= s + len(d) for s, d in w.segs)

    def _call(self, fn, *args):
        try:
            return fn(*args), None
        except IOError as e:
            return None, "IOError"
        except Exception as e:
            return None, "%s: %s" % (type(e).__name__, e)

    def _check(self, w, what, facts, got, exc, want):
        if exc not in (None, "IOError"):
            raise Violation("C25/read-raises-other", "%s raised %s" % (what, exc), facts)
        if want is None:
            if exc is None:
                raise Violation("C25/outside-read-returns", "%s outside the source returned %r" % (what, got), facts)
        else:
            if exc is not None:
                raise Violation("C25/inside-read-raises", "%s inside the source raised IOError" % what, facts)
            if got != want:
                raise Violation("C25/wrong-bits", "%s returned %r, source has %r" % (what, got, want), facts)

    def apply(self, w, a, log):
        k = a[0]
        bs = w.bs
        facts = {"op": k, "kind": w.kind, "cursor_moved": w.cursor not in (0, w.segs[0][0])}
        if k == "getbytes":
            addr, n = self._addr(w, a[1]), a[2]
            if not self._judgeable(w, addr, max(n, 1)):
                return
            got, exc = self._call(bs.getbytes, addr, n)
            want = self._model_read(w, addr, n) if n else b""
            log.add(k, hex(addr), n, got, exc)
            if n == 0:
                if exc not in (None, "IOError"):
                    raise Violation("C25/read-raises-other", "getbytes(%#x, 0) raised %s" % (addr, exc), facts)
                return
            w.probe("getbytes_ok" if want is not None else "getbytes_fault")
            self._check(w, "getbytes(%#x, %d)" % (addr, n), facts, got, exc, want)
        elif k == "getbits":
            addr, bit, n = self._addr(w, a[1]), a[2], a[3]
            start = addr * 8 + bit
            nbytes = (bit + n + 7) // 8
            if addr < 0 or not self._judgeable(w, addr, max(nbytes, 1)):
                return
            got, exc = self._call(bs.getbits, start, n)
            log.add(k, hex(addr), bit, n, got, exc)
            if n == 0:
                self._check(w, "getbits(%#x*8+%d, 0)" % (addr, bit), facts, got, exc, 0)
                return
            raw = self._model_read(w, addr, nbytes)
            want = None
            if raw is not None:
                v = int.from_bytes(raw, "big")
                want = (v >> (nbytes * 8 - bit - n)) & ((1 << n) - 1)
                w.probe("getbits_ok")
                if bit + n > 8:
                    w.probe("getbits_cross_byte")
                if facts["cursor_moved"]:
                    w.probe("cursor_moved_then_read")
            else:
                w.probe("getbits_fault")
            self._check(w, "getbits(%#x*8+%d, %d)" % (addr, bit, n), facts, got, exc, want)
        elif k == "get_u":
            addr, size, en = self._addr(w, a[1]), a[2], a[3]
            if not self._judgeable(w, addr, size // 8):
                return
            fn = getattr(bs, "get_u%d" % size)
            if en is None:
                got, exc = self._call(fn, addr)
                big = w.bs_default_be
            else:
                got, exc = self._call(fn, addr, self.LE if en == "le" else self.BE)
                big = en == "be"
            raw = self._model_read(w, addr, size // 8)
            want = None if raw is None else int.from_bytes(raw, "big" if big else "little")
            log.add(k, hex(addr), size, en, got, exc)
            w.probe("get_u_ok" if raw is not None else "get_u_fault")
            if big and raw is not None:
                w.probe("get_u_big_endian")
            facts["struct_error_ok"] = False
            self._check(w, "get_u%d(%#x, %s)" % (size, addr, en), facts, got, exc, want)
        elif k == "readbs":
            n = a[1]
            if w.kind in ("pe", "elf"):
                return
            got, exc = self._call(bs.readbs, n)
            want = self._model_read(w, w.cursor, n)
            log.add(k, hex(w.cursor), n, got, exc)
            w.probe("readbs_ok" if want is not None else "readbs_fault")
            self._check(w, "readbs(%d) at cursor %#x" % (n, w.cursor), facts, got, exc, want)
            if exc is None:
                w.cursor += n
        elif k == "setoffset":
            addr = self._addr(w, a[1])
            if w.kind in ("pe", "elf") or addr < 0:
                return
            if w.kind == "file" and addr < w.segs[0][0]:
                return       # a file cannot seek before its start
            bs.setoffset(addr)
            w.cursor = addr
            log.add(k, hex(addr))
        elif k == "atomic":
            with_peer = len(a) > 2 and a[2]
            bs.enter_atomic_mode()
            if with_peer:
                w.peer.enter_atomic_mode()
                w.probe("atomic_two_streams")
            w.probe("atomic_section")
            seen = set()
            try:
                for where, n in a[1]:
                    addr = self._addr(w, where)
                    if not self._judgeable(w, addr, n):
                        continue
                    got, exc = self._call(bs.getbytes, addr, n)
                    if (addr, n) in seen:
                        w.probe("atomic_cached_hit")
                    seen.add((addr, n))
                    want = self._model_read(w, addr, n)
                    log.add("atomic getbytes", hex(addr), n, got, exc)
                    facts["atomic"] = True
                    self._check(w, "cached getbytes(%#x, %d)" % (addr, n), facts, got, exc, want)
                    if with_peer:
                        # the other stream reads the same (address, length) in its own atomic section, then this one again
                        off = addr - w.peer_base
                        pwant = w.peer_data[off:off + n] if 0 <= off and off + n <= len(w.peer_data) else None
                        pgot, pexc = self._call(w.peer.getbytes, addr, n)
                        log.add("peer getbytes", hex(addr), n, pgot, pexc)
                        facts["peer"] = True
                        self._check(w, "second stream, cached getbytes(%#x, %d)" % (addr, n), facts, pgot, pexc, pwant)
                        got, exc = self._call(bs.getbytes, addr, n)
                        self._check(w, "cached getbytes(%#x, %d) after the second stream read there" % (addr, n), facts, got, exc, want)
                        facts.pop("peer", None)
            finally:
                bs.leave_atomic_mode()
                if with_peer:
                    w.peer.leave_atomic_mode()
        elif k == "dis":
            addr = self._addr(w, a[1])
            name, mn, attrib = self.mns[a[2] % len(self.mns)]
            if addr < 0 or not self._judgeable(w, addr, 16):
                return
            reads = []
            real_getbytes = bs.getbytes

            def spy(start, l=1):
                try:
                    val = real_getbytes(start, l)
                except BaseException as e:
                    reads.append((start, l, None, type(e).__name__))
                    raise
                reads.append((start, l, val, None))
                return val
            bs.getbytes = spy
            instr = exc = None
            try:
                instr = mn.dis(bs, attrib, addr)
            except Exception as e:
                exc = type(e).__name__
            finally:
                del bs.getbytes
            stuck = bs._atomic_mode
            if stuck:
                w.probe("atomic_left_on_after_failed_decode")
                bs.leave_atomic_mode()
            log.add("dis", name, hex(addr), instr, exc)
            w.probe("dis_ok" if instr is not None else "dis_failed")
            facts["arch"] = name
            for start, l, val, rexc in reads:
                if l <= 0 or not self._judgeable(w, start, l):
                    continue
                w.probe("dis_reads_checked")
                want = self._model_read(w, start, l)
                if rexc is not None:
                    w.probe("dis_fault_mid_decode")
                    rexc = "IOError" if rexc in ("OSError", "IOError") else rexc
                self._check(w, "getbytes(%#x, %d) during %s decode at %#x" % (start, l, name, addr), facts, val, rexc, want)
        elif k == "vm_toggle":
            i = a[1] % len(w.segs)
            s, d = w.segs[i]
            if w.mapped[i]:
                w.vm.remove_memory_page(s + w.cfg["base_offset"])
                w.probe("vm_unmap")
            else:
                w.vm.add_memory_page(s + w.cfg["base_offset"], 3, d, "seg%d" % i)
                w.probe("vm_map")
            w.mapped[i] = not w.mapped[i]
            log.add("vm_toggle", i, w.mapped[i])


_M = C25()


def get_machine(pid):
    return _M
