"""C48 — allocation histories of the emulated environments against an
interval model, on a real VmMngr that already holds foreign pages.

Families (all real code): os_dep.common.heap (vm_alloc/alloc), the Windows
stubs HeapAlloc / RtlAllocateHeap / GlobalAlloc / LocalAlloc / malloc /
calloc / realloc / VirtualAlloc called on an x86_32 Jitter with arguments on
the guest stack, LinuxEnvironment.mmap (anonymous / file backed, with hints,
MAP_FIXED) and brk.

Checked after every request: the returned region is mapped for the requested
size, overlaps no live allocation and no foreign page (MAP_FIXED supersedes
what it covers, as in the kernel), and its address differs from every live
allocation's address, zero-sized ones included.  Fault paths: a foreign page
in the allocator's way (VmMngr refuses the mapping), frees, zero sizes.
"""
import io

from simkit.core import Violation
from simkit.opmachine import OpMachine, World

SIZES = [0, 0, 1, 7, 0xfff, 0x1000, 0x1001, 0x2345, 0x8000]
MAP_FIXED, MAP_ANON, MAP_PRIVATE = 0x10, 0x20, 0x2


class C48(OpMachine):
    pid = "C48"
    title = "emulated allocators return fresh, non-overlapping mappings"
    rule = ("seeded histories (1-30 requests) mixing heap.alloc, 7 Windows allocation stubs, mmap (hint / fixed / anonymous / "
            "file backed) and brk, sizes {0,1,7,0xfff,0x1000,0x1001,0x2345,0x8000}, 3 foreign pages placed in the allocators' "
            "ways, frees; non-trivial = >=3 requests; distinct = distinct event-log digest")
    real_components = ["miasm.os_dep.common.heap", "miasm.os_dep.win_api_x86_32 allocation stubs",
                       "miasm.os_dep.linux.environment.LinuxEnvironment.mmap/brk", "x86_32 Jitter (python backend) for stub calls",
                       "VmMngr C extension built from the tree"]
    stub_components = ["reference model: list of live allocations and foreign pages (intervals)",
                       "io.BytesIO as the file behind a file-backed mmap"]
    assumptions = ["VirtualAlloc(lpvoid = start of an existing page) is a re-commit of that region, not a new allocation: not judged",
                   "an allocation request that raises (VmMngr refused the mapping) allocates nothing: the next requests are judged normally",
                   "free-like stubs never unmap; a freed allocation is no longer 'live' in the model"]
    quick_runs = 2500
    thorough_runs = 60000
    chunk = 50
    needs_build = True
    isolate_shrink = True
    expected_probes = ["heap_alloc", "win_stub", "virtualalloc", "virtualalloc_hint", "mmap_anon", "mmap_hint", "mmap_fixed",
                       "mmap_file", "brk_grow", "zero_size", "refused_by_vm", "free", "foreign_in_the_way"]

    def setup(self):
        from simkit import build
        build.activate()
        from miasm.analysis.machine import Machine as MiasmMachine
        from miasm.core.locationdb import LocationDB
        from miasm.os_dep import win_api_x86_32 as win
        from miasm.os_dep.common import heap
        from miasm.os_dep.linux import environment
        import logging
        logging.getLogger("win_api_x86_32").setLevel(logging.CRITICAL)
        self.MiasmMachine, self.LocationDB = MiasmMachine, LocationDB
        self.win, self.heap, self.environment = win, heap, environment

    WIN = ["kernel32_HeapAlloc", "ntoskrnl_ExAllocatePoolWithTagPriority", "kernel32_GlobalAlloc", "kernel32_LocalAlloc",
           "msvcrt_malloc", "msvcrt_realloc", "msvcrt_new"]

    def gen(self, rng, steer):
        # one emulated OS per process: Windows families or Linux families
        if rng.random() < 0.5:
            fam = rng.sample(["heap", "win", "valloc"], rng.randint(1, 3))
        else:
            fam = rng.sample(["mmap", "brk"], rng.randint(1, 2))
        foreign = []
        if rng.random() < 0.7:
            foreign.append([0x20000000 + 0x1000 * rng.choice([1, 2, 3, 5, 9]), rng.choice([0x10, 0x1000])])
        if rng.random() < 0.7:
            foreign.append([0x75000000 + 0x1000 * rng.choice([0, 1, 2, 4, 9]), rng.choice([0x10, 0x1000, 0x3000])])
        if rng.random() < 0.4 and not steer:
            foreign.append([0x74000000 + 0x1000 * rng.choice([1, 2, 8]), 0x1000])
        if rng.random() < 0.5:
            foreign.append([0x7fff0000, 0x1000])
        cfg = {"foreign": foreign, "steer": steer}
        actions = []
        for _ in range(rng.randint(1, 30)):
            f = rng.choice(fam)
            size = rng.choice(SIZES)
            if f == "heap":
                actions.append(["heap", size])
            elif f == "win":
                actions.append(["win", rng.randrange(len(self.WIN)), size, rng.randrange(8)])
            elif f == "valloc":
                hint = rng.choice([0, 0, 0x30000000, 0x20000800, 0x20001000, "live", "live+8"])
                actions.append(["valloc", hint, size, rng.randrange(8)])
            elif f == "mmap":
                mode = rng.choice(["anon", "anon", "hint", "hint", "fixed", "file"])
                if steer:
                    # known findings: brk grows over whatever lies in its way (a hinted mmap is placed
                    # right behind the brk area) and zero-length mmaps share addresses
                    if "brk" in fam and mode in ("hint", "fixed"):
                        mode = "anon"
                    if size == 0:
                        size = 1
                hint = 0
                if mode in ("hint", "fixed"):
                    hint = rng.choice([0x75000000, 0x75001000, 0x74fff000, 0x60000000, 0x75003000, "live", "live_end"] +
                                      ([] if steer else [0x74001000]))
                actions.append(["mmap", mode, hint, size, rng.randrange(8)])
            elif f == "brk":
                actions.append(["brk", rng.choice([0, 0x10, 0x1000, 0x1800, 0x4000])])
            if rng.random() < 0.1:
                actions.append(["free", rng.randrange(8)])
        return {"cfg": cfg, "actions": actions}

    def simplify_action(self, a):
        if a[0] in ("heap",) and a[1] not in (0, 1):
            yield [a[0], 1]
        if a[0] == "win" and a[2] not in (0, 1):
            yield [a[0], a[1], 1, a[3]]
        if a[0] == "win" and a[1]:
            yield [a[0], 0] + a[2:]

    def simplify_cfg(self, cfg):
        f = cfg["foreign"]
        for i in range(len(f)):
            yield dict(cfg, foreign=f[:i] + f[i + 1:])

    # ---- world -----------------------------------------------------------------------
    def make_world(self, cfg, log):
        w = World()
        loc_db = self.LocationDB()
        w.jitter = self.MiasmMachine("x86_32").jitter(loc_db, "python")
        w.jitter.init_stack()
        w.vm = w.jitter.vm
        self.win.winobjs = self.win.c_winobjs()
        w.heap = self.win.winobjs.heap      # the one process heap
        w.env = self.environment.LinuxEnvironment_x86_32()
        w.env.file_descriptors[7] = io.BytesIO(bytes(range(256)) * 64)
        w.foreign = []
        for addr, size in cfg["foreign"]:
            w.vm.add_memory_page(addr, 3, b"\xCC" * size, "foreign")
            w.foreign.append((addr, size))
        w.foreign.append((w.jitter.stack_base, w.jitter.stack_size))
        w.live = []          # [addr, size, family]
        w.steer = cfg.get("steer", True)
        w.brk = w.env.brk_current
        return w

    def _call_win(self, w, name, args, cdecl):
        j = w.jitter
        j.cpu.ESP = j.stack_base + j.stack_size - 0x100
        for arg in reversed(args):
            j.push_uint32_t(arg & 0xFFFFFFFF)
        j.push_uint32_t(0x1337beef)
        getattr(self.win, name)(j)
        return j.cpu.EAX

    def _overlaps(self, a, n, b, m):
        return a < b + m and b < a + n

    def _judge(self, w, addr, size, fam, facts, fixed=False):
        facts.update({"size": size, "family": fam})
        if size and not w.vm.is_mapped(addr, size):
            raise Violation("C48/not-mapped", "%s returned %#x but [%#x,+%#x) is not fully mapped" % (fam, addr, addr, size), facts)
        for fa, fs in w.foreign:
            if size and self._overlaps(addr, size, fa, fs) and not fixed:
                raise Violation("C48/overlap-foreign", "%s returned [%#x,+%#x) overlapping foreign page [%#x,+%#x)"
                                % (fam, addr, size, fa, fs), facts)
        for la, ls, lf in w.live:
            if fixed:
                continue
            if la == addr:
                facts["other_size"] = ls
                facts["other_family"] = lf
                facts["zero_length_mmap_involved"] = (size == 0 and fam.startswith("mmap")) or (ls == 0 and lf.startswith("mmap"))
                raise Violation("C48/same-address", "%s(size %#x) returned %#x, the address of a live %s allocation of size %#x"
                                % (fam, size, addr, lf, ls), facts)
            if size and ls and self._overlaps(addr, size, la, ls):
                facts["other_family"] = lf
                raise Violation("C48/overlap-live", "%s returned [%#x,+%#x) overlapping live %s allocation [%#x,+%#x)"
                                % (fam, addr, size, lf, la, ls), facts)
        if fixed:
            # supersede what the fixed mapping covers
            w.live = [l for l in w.live if not (l[1] and self._overlaps(addr, max(size, 1), l[0], l[1])) and l[0] != addr]
        w.live.append([addr, size, fam])
        if size == 0:
            w.probe("zero_size")

    def _live_addr(self, w, idx, end=False, plus=0):
        live = [l for l in w.live if not (w.steer and l[2] == "brk")]
        if not live:
            return 0x30000000
        a, s, _ = live[idx % len(live)]
        return (a + s if end else a) + plus

    def apply(self, w, a, log):
        k = a[0]
        facts = {"op": k}
        addr = None
        exc = None
        try:
            if k == "heap":
                w.probe("heap_alloc")
                addr = w.heap.vm_alloc(w.vm, a[1])
                size, fam = a[1], "heap.vm_alloc"
            elif k == "win":
                name = self.WIN[a[1]]
                w.probe("win_stub")
                size = a[2]
                if name == "kernel32_HeapAlloc":
                    args, cd = [0x1000, 0, size], False
                elif name == "ntoskrnl_ExAllocatePoolWithTagPriority":
                    args, cd = [0, size, 0x41414141, 0], False
                elif name in ("kernel32_GlobalAlloc", "kernel32_LocalAlloc"):
                    args, cd = [0, size], False
                elif name == "msvcrt_realloc":
                    old = self._live_addr(w, a[3]) if w.live and a[3] % 2 else 0
                    if old and not w.vm.is_mapped(old, 1):
                        old = 0
                    args, cd = [old, size], True
                else:
                    args, cd = [size], True
                addr = self._call_win(w, name, args, cd)
                fam = name
            elif k == "valloc":
                hint = a[1]
                if hint == "live":
                    hint = self._live_addr(w, a[3])
                elif hint == "live+8":
                    hint = self._live_addr(w, a[3], plus=8)
                w.probe("virtualalloc_hint" if hint else "virtualalloc")
                size = a[2]
                recommit = hint in w.vm.get_all_memory()
                addr = self._call_win(w, "kernel32_VirtualAlloc", [hint, size, 0x3000, 0x4], False)
                fam = "kernel32_VirtualAlloc"
                if recommit:
                    w.probe("virtualalloc_recommit_not_judged")
                    log.add(k, hex(hint), size, "->", hex(addr), "recommit")
                    return
            elif k == "mmap":
                mode, hint, size = a[1], a[2], a[3]
                if hint == "live":
                    hint = self._live_addr(w, a[4]) & ~0xfff
                elif hint == "live_end":
                    hint = (self._live_addr(w, a[4], end=True) + 0xfff) & ~0xfff
                flags = MAP_PRIVATE
                fd = 0xffffffff
                if mode == "file":
                    fd = 7
                    w.probe("mmap_file")
                else:
                    flags |= MAP_ANON
                if mode == "fixed":
                    if size == 0:
                        return
                    flags |= MAP_FIXED
                    w.probe("mmap_fixed")
                    # a fixed mapping over foreign pages / the stack is the guest's own business
                    if any(self._overlaps(hint, size, fa, fs) for fa, fs in w.foreign):
                        return
                elif mode == "hint":
                    w.probe("mmap_hint")
                else:
                    w.probe("mmap_anon")
                    hint = 0
                addr = w.env.mmap(hint, size, 3, flags, fd, 0, w.vm)
                fam = "mmap(%s)" % mode
                if mode == "fixed" and addr != hint:
                    raise Violation("C48/fixed-moved", "MAP_FIXED mapping at %#x was placed at %#x" % (hint, addr), facts)
                self._judge(w, addr, size, fam, facts, fixed=(mode == "fixed"))
                log.add(k, mode, hex(hint), size, "->", hex(addr))
                return
            elif k == "brk":
                if a[1] == 0:
                    got = w.env.brk(0, w.vm)
                    if got != w.brk:
                        raise Violation("C48/brk", "brk(0) = %#x, current break %#x" % (got, w.brk), facts)
                    return
                new = w.brk + a[1]
                w.probe("brk_grow")
                got = w.env.brk(new, w.vm)
                if got != new:
                    raise Violation("C48/brk", "brk(%#x) returned %#x" % (new, got), facts)
                old = w.brk
                w.brk = new
                # the grown area is an allocation of its own
                self._judge_brk(w, old, new - old, facts)
                log.add(k, hex(old), "->", hex(new))
                return
            elif k == "free":
                if w.live:
                    dead = w.live.pop(a[1] % len(w.live))
                    w.probe("free")
                    name = "kernel32_HeapFree" if dead[2].startswith("kernel32_Heap") else "msvcrt_free"
                    if name == "kernel32_HeapFree":
                        self._call_win(w, name, [0x1000, 0, dead[0]], False)
                    else:
                        self._call_win(w, name, [dead[0]], True)
                    log.add(k, hex(dead[0]))
                return
        except Violation:
            raise
        except (TypeError, AssertionError, RuntimeError) as e:
            # VmMngr refused the mapping ("known page in memory") or the stub asserted on it
            exc = type(e).__name__
            w.probe("refused_by_vm")
            if any(True for _ in w.foreign):
                w.probe("foreign_in_the_way")
            log.add(k, a[1:], "raised", exc)
            return
        self._judge(w, addr, size, fam, facts)
        log.add(k, a[1:], "->", hex(addr))

    def _judge_brk(self, w, start, size, facts):
        facts.update({"size": size, "family": "brk"})
        if not w.vm.is_mapped(start, size):
            raise Violation("C48/not-mapped", "brk grew to %#x but [%#x,+%#x) is not fully mapped" % (start + size, start, size), facts)
        for fa, fs in w.foreign:
            if self._overlaps(start, size, fa, fs):
                raise Violation("C48/overlap-foreign", "brk area [%#x,+%#x) runs over foreign page [%#x,+%#x)" % (start, size, fa, fs), facts)
        for la, ls, lf in w.live:
            if ls and self._overlaps(start, size, la, ls):
                facts["other_family"] = lf
                raise Violation("C48/overlap-live", "brk area [%#x,+%#x) runs over live %s allocation [%#x,+%#x)"
                                % (start, size, lf, la, ls), facts)
        w.live.append([start, size, "brk"])


_M = C48()


def get_machine(pid):
    return _M
