"""property id -> machine instance (imported lazily so that a check only
imports what it needs)."""
import importlib

MODULES = {
    "C13": "simkit.b_c13",
    "C20": "simkit.a_machines",
    "C21": "simkit.a_machines",
    "C22": "simkit.a_machines",
    "C23": "simkit.a_machines",
    "C24": "simkit.b_c24",
    "C25": "simkit.b_c25",
    "C28": "simkit.b_c28",
    "C29": "simkit.b_c29",
    "C30": "simkit.b_c30",
    "C31": "simkit.b_c31",
    "C33": "simkit.b_c33",
    "C45": "simkit.b_c45",
    "C46": "simkit.b_c46",
    "C48": "simkit.b_c48",
    "C49": "simkit.a_machines",
}


def get(pid):
    mod = importlib.import_module(MODULES[pid])
    return mod.get_machine(pid)
