"""C13 — symbolic memory histories against a per-base byte map.

Real: SymbolicExecutionEngine / SymbolMngr / MemSparse / MemArray on a 32-bit
and a 64-bit lifter.  Model: dict (base, offset mod 2^n) -> (stored
expression, byte index).  Oracle: a concrete valuation of every identifier and
of original memory is applied to what the engine returns by a small evaluator
that understands only Int/Id/Slice/Compose/Mem and a few arithmetic operators
(it does not use miasm's simplifier); every byte must equal the model's byte,
little-endian, with addresses wrapping at 2^n.

Restart fault: get_state() -> set_state() into a fresh engine (only exported
state survives), and SymbolMngr.copy(); afterwards the whole window of every
base is re-read.  Rejection fault: `del` of a region that is not fully present
must raise KeyError and change nothing.
"""
from simkit.core import Violation
from simkit.opmachine import OpMachine, World

WINDOW = 12      # offsets explored: [-WINDOW, +WINDOW] around 0 (mod 2^n)


class HarnessError(Exception):
    pass


def mix(addr, salt):
    x = ((addr ^ salt) * 0x9E3779B97F4A7C15) & 0xFFFFFFFFFFFFFFFF
    x ^= x >> 29
    x = (x * 0xBF58476D1CE4E5B9) & 0xFFFFFFFFFFFFFFFF
    return (x >> 56) & 0xFF


class Valuation(object):
    def __init__(self, ids, salt, addrsize):
        self.ids = ids
        self.salt = salt
        self.mask = (1 << addrsize) - 1

    def mem(self, addr, nbytes):
        v = 0
        for i in range(nbytes):
            v |= mix((addr + i) & self.mask, self.salt) << (8 * i)
        return v

    def ev(self, e):
        if e.is_int():
            return int(e)
        if e.is_id():
            return self.ids[e.name] & ((1 << e.size) - 1)
        if e.is_slice():
            return (self.ev(e.arg) >> e.start) & ((1 << (e.stop - e.start)) - 1)
        if e.is_compose():
            v = 0
            sh = 0
            for a in e.args:
                v |= self.ev(a) << sh
                sh += a.size
            return v
        if e.is_mem():
            return self.mem(self.ev(e.ptr), e.size // 8)
        if e.is_op():
            m = (1 << e.size) - 1
            args = [self.ev(a) for a in e.args]
            if e.op == "+":
                return sum(args) & m
            if e.op == "-" and len(args) == 1:
                return (-args[0]) & m
            if e.op == "*":
                v = 1
                for a in args:
                    v *= a
                return v & m
            if e.op == "^":
                v = 0
                for a in args:
                    v ^= a
                return v
            if e.op == "&":
                v = m
                for a in args:
                    v &= a
                return v
            if e.op == "|":
                v = 0
                for a in args:
                    v |= a
                return v
            if e.op == ">>" and len(args) == 2:
                return (args[0] >> args[1]) & m if args[1] < e.size else 0
            if e.op == "<<" and len(args) == 2:
                return (args[0] << args[1]) & m if args[1] < e.size else 0
            if e.op == "a>>" and len(args) == 2:
                sign = args[0] >> (e.size - 1)
                sh = min(args[1], e.size)
                v = args[0] >> sh
                if sign:
                    v |= (m >> (e.size - sh)) << (e.size - sh) if sh else 0
                return v & m
            if e.op.startswith("zeroExt_"):
                return args[0]
            if e.op.startswith("signExt_"):
                src = e.args[0].size
                v = args[0]
                if v >> (src - 1):
                    v |= m ^ ((1 << src) - 1)
                return v & m
        raise HarnessError("evaluator does not know %r" % e)


class C13(OpMachine):
    pid = "C13"
    title = "symbolic memory is a little-endian byte store"
    rule = ("seeded histories (1-40 ops) of writes (8-64 bit; constants, identifiers, slices/compositions, reads of original "
            "memory incl. write-back of the original cell), reads, del, delete_partial, get_state->set_state into a fresh engine, "
            "SymbolMngr.copy over 3-4 bases (integer base, two identifiers, their sum), offsets within +-12 of 0 modulo 2^n "
            "(wrap-around), 32- and 64-bit address size; non-trivial = >=3 ops; distinct = distinct event-log digest")
    real_components = ["miasm.ir.symbexec SymbolicExecutionEngine/SymbolMngr/MemSparse/MemArray",
                       "miasm.expression (expressions, expr_simp_explicit as used by the engine)",
                       "miasm.arch.x86 lifters (32/64 bit) only as address-size providers"]
    stub_components = ["reference model: per-base byte map", "concrete evaluator of returned expressions (simkit/b_c13.py)"]
    assumptions = ["identifier bases take concrete values far apart, so distinct bases do not alias in the concrete evaluation",
                   "pointers are simplified with expr_simp_explicit before use, as the engine itself does"]
    quick_runs = 6000
    thorough_runs = 120000
    chunk = 100
    expected_probes = ["write", "write_wrap", "write_overlap_partial", "write_original_back", "read", "read_wrap",
                       "read_mixed_known_unknown", "del_ok", "del_rejected", "delete_partial", "export_import",
                       "copy", "export_with_wrap_region", "value_mem", "value_compose"]

    def setup(self):
        from miasm.analysis.machine import Machine as MiasmMachine
        from miasm.core.locationdb import LocationDB
        from miasm.ir.symbexec import SymbolicExecutionEngine
        from miasm.expression.expression import ExprId, ExprInt, ExprMem, ExprCompose, ExprSlice
        from miasm.expression.simplifications import expr_simp_explicit
        self.E = (ExprId, ExprInt, ExprMem, ExprCompose, ExprSlice)
        self.simp = expr_simp_explicit
        self.SEE = SymbolicExecutionEngine
        self.lifters = {}
        for size, name in ((32, "x86_32"), (64, "x86_64")):
            self.lifters[size] = MiasmMachine(name).lifter(LocationDB())

    # ---- generation -----------------------------------------------------------
    def _off(self, rng):
        return rng.randint(-WINDOW, WINDOW)

    def _value(self, rng, size, depth=0):
        r = rng.random()
        if r < 0.25:
            return ["int", rng.getrandbits(size)]
        if r < 0.5:
            return ["id", rng.randrange(2)]
        if r < 0.7 and size > 8:
            # composition of two halves / unequal parts (byte aligned)
            cut = rng.choice([c for c in (8, 16, 24, 32, 40, 48, 56) if c < size])
            return ["compose", [cut, self._value(rng, cut, 1) if cut in (8, 16, 32) else ["int", rng.getrandbits(cut)]],
                    [size - cut, self._value(rng, size - cut, 1) if (size - cut) in (8, 16, 32) else ["int", rng.getrandbits(size - cut)]]]
        if r < 0.8 and size < 64:
            # slice of a bigger identifier
            big = rng.choice([s for s in (16, 32, 64) if s > size])
            start = 8 * rng.randrange((big - size) // 8 + 1)
            return ["slice", big, rng.randrange(2), start]
        # read of original memory
        return ["mem", rng.randrange(4), self._off(rng)]

    def gen(self, rng, steer):
        addrsize = rng.choice([32, 32, 64])
        nbases = rng.randint(1, 4)
        cfg = {"addrsize": addrsize, "salt": rng.getrandbits(32), "nbases": nbases}
        kinds = ["write"] * 8 + ["read"] * 6 + ["del"] * 2 + ["delp"] * 1 + ["export"] * 1 + ["copy"] * 1 + ["wback"] * 1
        actions = []
        for _ in range(rng.randint(1, 40)):
            k = rng.choice(kinds)
            base = rng.randrange(nbases)
            size = rng.choice([8, 16, 32, 64])
            if k == "write":
                actions.append([k, base, self._off(rng), size, self._value(rng, size)])
            elif k == "wback":
                actions.append([k, base, self._off(rng), size, rng.choice([0, 0, 1, -1])])
            elif k in ("read", "del", "delp"):
                actions.append([k, base, self._off(rng), size])
            else:
                actions.append([k])
        return {"cfg": cfg, "actions": actions}

    def simplify_action(self, a):
        if a[0] in ("write", "read", "del", "delp", "wback"):
            if a[3] > 8:
                if a[0] not in ("write",):
                    yield a[:3] + [a[3] // 2] + a[4:]
            if a[1]:
                yield [a[0], 0] + a[2:]
        if a[0] == "write" and a[4][0] != "int":
            yield a[:4] + [["int", 0x1122334455667788 & ((1 << a[3]) - 1)]]

    # ---- world ------------------------------------------------------------------
    def make_world(self, cfg, log):
        ExprId, ExprInt, ExprMem, ExprCompose, ExprSlice = self.E
        w = World()
        n = cfg["addrsize"]
        w.n = n
        w.mask = (1 << n) - 1
        w.lifter = self.lifters[n]
        w.engine = self.SEE(w.lifter)
        b0, b1 = ExprId("B0", n), ExprId("B1", n)
        w.bases = [None, b0, b1, b0 + b1][:max(1, cfg["nbases"])]
        unit = 1 << (n - 4)
        ids = {"B0": 3 * unit + 0x1100, "B1": 5 * unit + 0x220000}
        vals = {}
        salt = cfg["salt"]
        for size in (8, 16, 32, 64):
            for k in range(2):
                name = "V%d_%d" % (size, k)
                ids[name] = mix(size * 4 + k, salt) | (mix(size * 8 + k, salt ^ 0x55) << 8) | \
                    (mix(k, salt ^ size) << 16) | (mix(k + 9, salt + size) << 24) | \
                    (mix(k + 77, salt * 3 + size) << 40) | (mix(k + 5, salt * 7 + size) << 56)
                vals[(size, k)] = ExprId(name, size)
        w.vals = vals
        w.val = Valuation(ids, salt, n)
        w.model = {}         # (base index, offset) -> (expr, byte index)
        w.reads = []
        return w

    def _ptr(self, w, base, off):
        ExprId, ExprInt, ExprMem, ExprCompose, ExprSlice = self.E
        off &= w.mask
        b = w.bases[base % len(w.bases)]
        if b is None:
            return ExprInt(off, w.n)
        return self.simp(b + ExprInt(off, w.n))

    def _mkvalue(self, w, desc, size):
        ExprId, ExprInt, ExprMem, ExprCompose, ExprSlice = self.E
        k = desc[0]
        if k == "int":
            return ExprInt(desc[1] & ((1 << size) - 1), size)
        if k == "id":
            return w.vals[(size, desc[1])]
        if k == "compose":
            w.probe("value_compose")
            return ExprCompose(self._mkvalue(w, desc[1][1], desc[1][0]), self._mkvalue(w, desc[2][1], desc[2][0]))
        if k == "slice":
            return ExprSlice(w.vals[(desc[1], desc[2])], desc[3], desc[3] + size)
        if k == "mem":
            w.probe("value_mem")
            return ExprMem(self._ptr(w, desc[1], desc[2]), size)
        raise HarnessError("bad value %r" % (desc,))

    def _has_mem(self, e):
        if e.is_mem():
            return True
        if e.is_slice():
            return self._has_mem(e.arg)
        if e.is_compose() or e.is_op():
            return any(self._has_mem(a) for a in e.args)
        return False

    def _expected(self, w, base, off, size):
        """Expected little-endian integer of a read, from the model."""
        base %= len(w.bases)
        b = w.bases[base]
        bval = 0 if b is None else w.val.ev(b)
        v = 0
        known = unknown = 0
        for i in range(size // 8):
            o = (off + i) & w.mask
            cell = w.model.get((base, o))
            if cell is None:
                byte = mix((bval + o) & w.mask, w.val.salt)
                unknown += 1
            else:
                expr, idx = cell[0], cell[1]
                byte = (w.val.ev(expr) >> (8 * idx)) & 0xFF
                known += 1
            v |= byte << (8 * i)
        return v, known, unknown

    def _read_check(self, w, base, off, size, facts, what):
        ExprId, ExprInt, ExprMem, ExprCompose, ExprSlice = self.E
        ptr = self._ptr(w, base, off)
        got = w.engine.symbols.read(ExprMem(ptr, size))
        if got.size != size:
            raise Violation("C13/wrong-read", "%s of @%d[%s] returned %d bits" % (what, size, ptr, got.size), facts)
        want, known, unknown = self._expected(w, base, off, size)
        have = w.val.ev(got)
        if have != want:
            raise Violation("C13/wrong-read", "%s @%d[%s] = %s evaluates to %#x, byte store says %#x"
                            % (what, size, ptr, got, have, want), facts)
        return got, known, unknown

    def apply(self, w, a, log):
        ExprId, ExprInt, ExprMem, ExprCompose, ExprSlice = self.E
        k = a[0]
        facts = {"op": k, "addrsize": w.n}
        sym = w.engine.symbols
        if k in ("write", "wback"):
            base, off, size = a[1] % len(w.bases), a[2] & w.mask, a[3]
            if k == "write":
                value = self._mkvalue(w, a[4], size)
            else:
                # write (a shifted view of) the original cell back
                value = ExprMem(self._ptr(w, base, off + a[4]), size)
                if a[4] == 0:
                    w.probe("write_original_back")
            ptr = self._ptr(w, base, off)
            wraps = off + size // 8 - 1 > w.mask
            facts["wrap"] = wraps
            if wraps:
                w.probe("write_wrap")
            touched = [(base, (off + i) & w.mask) for i in range(size // 8)]
            present = sum(1 for c in touched if c in w.model)
            if 0 < present < len(touched) or any(w.model.get(c, (None, 0, 0))[1] != i for i, c in enumerate(touched) if c in w.model):
                w.probe("write_overlap_partial")
            sym.write(ExprMem(ptr, size), value)
            w.probe("write")
            # a value that reads memory may be the original cell itself, which the
            # engine is free not to store (it then is not "stored" for `del`)
            maybe_orig = k == "wback" or self._has_mem(value)
            for i, c in enumerate(touched):
                w.model[c] = (value, i, maybe_orig)
            log.add("write", base, hex(off), size, value)
            # read back what was written and its neighbourhood
            self._read_check(w, base, off, size, facts, "read-back")
        elif k == "read":
            base, off, size = a[1] % len(w.bases), a[2] & w.mask, a[3]
            facts["wrap"] = off + size // 8 - 1 > w.mask
            got, known, unknown = self._read_check(w, base, off, size, facts, "read")
            w.probe("read")
            if facts["wrap"]:
                w.probe("read_wrap")
            if known and unknown:
                w.probe("read_mixed_known_unknown")
            w.reads.append((base, off, size))
            log.add("read", base, hex(off), size, "->", got)
        elif k in ("del", "delp"):
            base, off, size = a[1] % len(w.bases), a[2] & w.mask, a[3]
            ptr = self._ptr(w, base, off)
            touched = [(base, (off + i) & w.mask) for i in range(size // 8)]
            full = all(c in w.model for c in touched)
            unsure = any(c in w.model and w.model[c][2] for c in touched)
            exc = None
            try:
                if k == "del":
                    del sym[ExprMem(ptr, size)]
                else:
                    sym.symbols_mem.delete_partial(ExprMem(ptr, size))
            except KeyError:
                exc = "KeyError"
            log.add(k, base, hex(off), size, exc)
            if k == "del":
                if full and unsure:
                    if not exc:
                        for c in touched:
                            del w.model[c]
                elif full:
                    if exc:
                        raise Violation("C13/delete", "del of fully stored @%d[%s] raised KeyError" % (size, ptr), facts)
                    w.probe("del_ok")
                    for c in touched:
                        del w.model[c]
                else:
                    w.probe("del_rejected")
                    if not exc:
                        # deleting a partially stored region is refused by contract; if accepted
                        # the stored part must be gone (restores original cells)
                        for c in touched:
                            w.model.pop(c, None)
            else:
                w.probe("delete_partial")
                if not exc:
                    for c in touched:
                        w.model.pop(c, None)
            self._sweep(w, facts, "after delete", bases=[base])
        elif k == "export":
            state = w.engine.get_state()
            fresh = self.SEE(w.lifter)
            fresh.set_state(state)
            w.engine = fresh
            w.probe("export_import")
            if any(o == w.mask for (_, o) in w.model) and any(o == 0 for (_, o) in w.model):
                w.probe("export_with_wrap_region")
            log.add("export/import", len(dict(state)))
            self._sweep(w, facts, "after export/import")
        elif k == "copy":
            w.engine.symbols = w.engine.symbols.copy()
            w.probe("copy")
            log.add("copy")
            self._sweep(w, facts, "after copy")

    def _sweep(self, w, facts, what, bases=None):
        for base in (bases if bases is not None else range(len(w.bases))):
            for off in range(-WINDOW - 8, WINDOW + 9):
                self._read_check(w, base, off & w.mask, 8, facts, what + " byte")
        for base, off, size in w.reads[-12:]:
            self._read_check(w, base, off, size, facts, what + " repeat")

    def finish(self, w, log):
        self._sweep(w, {"op": "final", "addrsize": w.n}, "final")

    def run(self, case, keep_log=False):
        try:
            return OpMachine.run(self, case, keep_log)
        except HarnessError:
            raise


_M = C13()


def get_machine(pid):
    return _M
