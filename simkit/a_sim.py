"""Simulator A — the guest machine.

A real miasm Jitter (python or gcc backend, real C VmMngr/JitCpu built from the
tree) executes a generated guest program while a seeded scheduler lets host
actors act at every control point (exec_cb, breakpoint callbacks, exception
handlers, returns of continue_run): debugger, tuner, host writer, fault
injector, restarter.  Every run is judged against a reference execution of the
same program: python backend, one instruction per block, cold cache (cleared
before every step for self-modifying programs), no faults, no breakpoints.

Simulated time: tick = one retired guest instruction of the reference.
State digest = sha1(jitter.pc, registers without the PC register, bytes of the
logical memory = mapped pages + pages currently held out by the injector).
"""
import hashlib
import os
import re
import sys

from simkit.core import Violation, EventLog

CODE = 0x400000
D0 = 0x500000           # data page 0 (0x1000), adjacent to
D1 = 0x501000           # data page 1 (0x1000): 0x500ffe.. straddles
RO = 0x502000           # read-only page
HOLE = 0x503000         # never mapped
STACK_SIZE = 0x1000
STACK_BASE = 0x1230000
STACK_LOW = STACK_BASE - 0x1000
GCC_BLOCK_CAP = 80
TICK_CAP = 3000
CP_CAP = 6000


class HarnessError(Exception):
    pass


class Discard(Exception):
    """The run cannot be judged (ambiguous stamp, generated program does not
    assemble/terminate): counted, not a violation."""


class Env(object):
    """miasm handles, imported once in the parent."""

    def __init__(self):
        from simkit import build
        build.activate()
        from miasm.analysis.machine import Machine
        from miasm.core.locationdb import LocationDB
        from miasm.core import parse_asm, asmblock
        from miasm.core.interval import interval
        from miasm.jitter import csts
        from miasm.jitter.jitload import JitterException
        from miasm.jitter.jitcore import JitCore
        self.build = build
        self.Machine, self.LocationDB = Machine, LocationDB
        self.parse_asm, self.asmblock, self.interval = parse_asm, asmblock, interval
        self.csts = csts
        self.JitterException = JitterException
        self.JitCore = JitCore
        self.asm_cache = {}
        self.machines = {}

    def machine(self, arch):
        if arch not in self.machines:
            self.machines[arch] = self.Machine(arch)
        return self.machines[arch]


ENV = None


def env():
    global ENV
    if ENV is None:
        ENV = Env()
    return ENV


ARCH_INFO = {
    "x86_32": {"attrib": 32, "jitarch": "x86", "pcregs": ("RIP",)},
    "x86_64": {"attrib": 64, "jitarch": "x86", "pcregs": ("RIP",)},
    "arml": {"attrib": "l", "jitarch": "arm", "pcregs": ("PC",)},
    "mips32l": {"attrib": "l", "jitarch": "mips32", "pcregs": ("PC", "PC_FETCH")},
    "aarch64l": {"attrib": "l", "jitarch": "aarch64", "pcregs": ("PC",)},
    # big-endian twins: same programs, instruction words and data accesses in the other byte order
    "armb": {"attrib": "b", "jitarch": "arm", "pcregs": ("PC",)},
    "mips32b": {"attrib": "b", "jitarch": "mips32", "pcregs": ("PC", "PC_FETCH")},
}
BE_TWIN = {"armb": "arml", "mips32b": "mips32l"}
TWIN_FLAVOUR = {"x86_32": "x86_64", "x86_64": "x86_32", "arml": "armb", "armb": "arml", "mips32l": "mips32b", "mips32b": "mips32l"}


def family(arch):
    """Little-endian name of @arch's family (generators, register names and layouts are per family)."""
    return BE_TWIN.get(arch, arch)


# ---------------------------------------------------------------------------
# programs

JCC = {"JO": 0, "JNO": 1, "JB": 2, "JAE": 3, "JZ": 4, "JNZ": 5, "JBE": 6, "JA": 7, "JS": 8, "JNS": 9,
       "JP": 10, "JNP": 11, "JL": 12, "JGE": 13, "JLE": 14, "JG": 15}
REG32 = {"EAX": 0, "ECX": 1, "EDX": 2, "EBX": 3, "ESP": 4, "EBP": 5, "ESI": 6, "EDI": 7}
REG32.update({"RAX": 0, "RCX": 1, "RDX": 2, "RBX": 3, "RSP": 4, "RBP": 5, "RSI": 6, "RDI": 7})   # MOV r64, label == B8+r imm32 (zero-extended)
REG8 = {"AL": 0, "CL": 1, "DL": 2, "BL": 3}
LABEL_RE = re.compile(r"^(L\d+|cell\d+|jc\d+|sub\d+|end|main)$")
ASM_CACHE_FILE = os.path.join(os.path.dirname(os.path.abspath(__file__)), "asmcache_x86_32.json")


def asm_cache_file(arch):
    return os.path.join(os.path.dirname(os.path.abspath(__file__)), "asmcache_%s.json" % arch)


class StatementAssembler(object):
    """statement text -> bytes, through miasm's assembler, cached (the assembler
    is a workload generator here, not the code under test)."""

    def __init__(self, arch):
        import json
        self.arch = arch
        self.cache = {}
        self.new = {}
        try:
            with open(asm_cache_file(arch)) as fd:
                self.cache = {k: bytes.fromhex(v) for k, v in json.load(fd).items()}
        except (IOError, ValueError):
            pass

    def asm(self, text):
        b = self.cache.get(text)
        if b is not None:
            return b
        e = env()
        m = e.machine(self.arch)
        try:
            if self.arch == "aarch64l" and text == "RET":
                cands = [b"RET"]
            else:
                ins = m.mn.fromstring(text, e.LocationDB(), ARCH_INFO[self.arch]["attrib"])
                cands = m.mn.asm(ins)
        except Exception as exc:
            raise Discard("cannot assemble %r: %s" % (text, exc))
        if not cands:
            raise Discard("cannot assemble %r" % text)
        if self.arch == "aarch64l":
            if text == "RET":
                cands = [bytes.fromhex("c0035fd6")]
            else:
                norm = lambda t: "".join(str(t).upper().split())
                same = [c for c in cands if norm(m.mn.dis(c, "l")) == norm(text)]
                if not same:
                    raise Discard("no candidate of %r reads back as itself" % text)
                cands = same
        b = min(cands, key=lambda c: (len(c), c))
        self.cache[text] = b
        self.new[text] = b
        return b


_ASM = {}


class SwappedAssembler(object):
    """Big-endian twin of a fixed-width little-endian assembler: the same 4-byte words, bytes reversed
    (checked once for every cached statement: the big-endian decoder reads them back as the same text)."""

    def __init__(self, twin):
        self.twin = twin

    def asm(self, text):
        return self.twin.asm(text)[::-1]


def statement_assembler(arch):
    if arch not in _ASM:
        _ASM[arch] = SwappedAssembler(statement_assembler(BE_TWIN[arch])) if arch in BE_TWIN else StatementAssembler(arch)
    return _ASM[arch]


def Program(arch, lines):
    if arch.startswith("x86"):
        return ProgramX86(arch, lines)
    return ProgramFixed4(arch, lines)


ARM_COND = {"EQ": 0, "NE": 1, "CS": 2, "CC": 3, "MI": 4, "PL": 5, "VS": 6, "VC": 7, "HI": 8, "LS": 9,
            "GE": 10, "LT": 11, "GT": 12, "LE": 13, "": 14}
MIPS_REG = {n: i for i, n in enumerate(["ZERO", "AT", "V0", "V1", "A0", "A1", "A2", "A3", "T0", "T1", "T2", "T3", "T4", "T5",
                                        "T6", "T7", "S0", "S1", "S2", "S3", "S4", "S5", "S6", "S7", "T8", "T9", "K0", "K1",
                                        "GP", "SP", "FP", "RA"])}


class ProgramFixed4(object):
    """Programs for fixed-width (4-byte) architectures: arml, mips32l and their big-endian twins.  Plain statements go
    through miasm's assembler (cached); branches to labels are encoded here."""

    def __init__(self, arch, lines):
        self.arch = arch
        self.lines = lines
        sa = statement_assembler(arch)
        items = []
        for line in lines:
            line = line.strip()
            if not line:
                continue
            if line.endswith(":"):
                items.append(("label", line[:-1], line))
                continue
            op, _, rest = line.partition(" ")
            target = rest.split(",")[-1].strip()
            if LABEL_RE.match(target) and (op.startswith("B") or op in ("J", "JAL", "CBZ", "CBNZ")):
                items.append(("branch", (op, [x.strip() for x in rest.split(",")[:-1]], target), line))
            else:
                b = sa.asm(line)
                if len(b) != 4:
                    raise Discard("not a 4-byte instruction: %r" % line)
                items.append(("raw", b, line))
        labels = {}
        off = CODE
        for kind, payload, _ in items:
            if kind == "label":
                if payload in labels:
                    raise Discard("duplicate label")
                labels[payload] = off
            else:
                off += 4
        buf = bytearray()
        self.instrs = []
        self.text_at = {}
        off = CODE
        for kind, payload, text in items:
            if kind == "label":
                continue
            self.instrs.append((off, 4))
            self.text_at[off] = text
            if kind == "raw":
                buf += payload
            else:
                op, regs, target = payload
                if target not in labels:
                    raise Discard("unknown label %s" % target)
                dst = labels[target]
                if arch == "aarch64l":
                    rel = (dst - off) >> 2
                    if op in ("B", "BL"):
                        word = (0x94000000 if op == "BL" else 0x14000000) | (rel & 0x3FFFFFF)
                    elif op.startswith("B.") and op[2:] in ARM_COND and op[2:]:
                        word = 0x54000000 | ((rel & 0x7FFFF) << 5) | ARM_COND[op[2:]]
                    elif op in ("CBZ", "CBNZ") and len(regs) == 1 and regs[0][0] in "XW" and regs[0][1:].isdigit():
                        word = (0xB4000000 if regs[0][0] == "X" else 0x34000000) | (0x01000000 if op == "CBNZ" else 0) | \
                            ((rel & 0x7FFFF) << 5) | int(regs[0][1:])
                    else:
                        raise Discard("bad branch %r" % text)
                elif family(arch) == "arml":
                    link = 1 if op.startswith("BL") and op[2:] in ARM_COND else 0
                    cond = op[2:] if link else op[1:]
                    if cond not in ARM_COND:
                        raise Discard("bad branch %r" % text)
                    word = (ARM_COND[cond] << 28) | (0b101 << 25) | (link << 24) | (((dst - (off + 8)) >> 2) & 0xFFFFFF)
                else:
                    if op in ("J", "JAL"):
                        word = ((2 if op == "J" else 3) << 26) | ((dst >> 2) & 0x3FFFFFF)
                    elif op in ("BEQ", "BNE") and len(regs) == 2:
                        word = ((4 if op == "BEQ" else 5) << 26) | (MIPS_REG[regs[0]] << 21) | (MIPS_REG[regs[1]] << 16) | \
                            (((dst - (off + 4)) >> 2) & 0xFFFF)
                    else:
                        raise Discard("bad branch %r" % text)
                buf += word.to_bytes(4, "big" if arch in BE_TWIN else "little")
            off += 4
        if "main" not in labels or "end" not in labels:
            raise Discard("no main/end")
        if len(buf) > 0xF00:
            raise Discard("program too large")
        self.code = bytes(buf)
        self.labels = labels
        self.entry = labels["main"]
        self.end = labels["end"]


class ProgramX86(object):
    """A program = list of statements.  Plain statements are assembled one by
    one (cached); labels, branches, calls and label immediates are laid out and
    encoded here (fixed-size rel32 forms), so a program costs microseconds."""

    def __init__(self, arch, lines):
        self.arch = arch
        self.lines = lines
        sa = statement_assembler(arch)
        items = []          # (kind, payload, size)
        for line in lines:
            line = line.strip()
            if not line:
                continue
            if line.endswith(":"):
                items.append(("label", line[:-1], 0, line))
                continue
            op, _, rest = line.partition(" ")
            rest = rest.strip()
            if op in JCC and rest and not rest.startswith("0x"):
                items.append(("jcc", (JCC[op], rest), 6, line))
            elif op in ("JMP", "CALL") and rest and rest not in REG32 and not rest.startswith(("0x", "DWORD", "[")):
                items.append((op.lower(), rest, 5, line))
            elif op == "MOV" and "," in rest and rest.split(",")[0].strip() in REG32 and \
                    LABEL_RE.match(rest.split(",")[1].strip()):
                items.append(("movlabel", (REG32[rest.split(",")[0].strip()], rest.split(",")[1].strip()), 5, line))
            elif op == "JMPS" and LABEL_RE.match(rest):
                items.append(("jmps", rest, 2, line))
            elif op == "MOV" and rest.startswith(("BYTE PTR [cell", "BYTE PTR [jc")):
                # MOV BYTE PTR [cellN+k], 0xVV
                inside = rest[rest.index("[") + 1:rest.index("]")]
                name, _, k = inside.partition("+")
                src = rest.split(",")[1].strip()
                if src in REG8:
                    # MOV BYTE PTR [cellN+k], r8: the stored value depends on the state of the run
                    items.append(("movbytereg", (name, int(k or 0), REG8[src]), 6, line))
                else:
                    items.append(("movbyte", (name, int(k or 0), int(src, 16)), 7, line))
            else:
                b = sa.asm(line)
                items.append(("raw", b, len(b), line))
        labels = {}
        off = CODE
        for kind, payload, size, _ in items:
            if kind == "label":
                if payload in labels:
                    raise Discard("duplicate label")
                labels[payload] = off
            off += size
        buf = bytearray()
        instrs = []
        off = CODE
        self.text_at = {}
        for kind, payload, size, text in items:
            if kind == "label":
                continue
            instrs.append((off, size))
            self.text_at[off] = text
            nxt = off + size
            try:
                if kind == "raw":
                    buf += payload
                elif kind == "jcc":
                    buf += bytes([0x0F, 0x80 + payload[0]]) + ((labels[payload[1]] - nxt) & 0xFFFFFFFF).to_bytes(4, "little")
                elif kind == "jmp":
                    buf += b"\xE9" + ((labels[payload] - nxt) & 0xFFFFFFFF).to_bytes(4, "little")
                elif kind == "jmps":
                    rel = labels[payload] - nxt
                    if not 0 <= rel < 0x80:
                        raise Discard("short jump out of range")
                    buf += bytes([0xEB, rel])
                elif kind == "call":
                    buf += b"\xE8" + ((labels[payload] - nxt) & 0xFFFFFFFF).to_bytes(4, "little")
                elif kind == "movlabel":
                    buf += bytes([0xB8 + payload[0]]) + labels[payload[1]].to_bytes(4, "little")
                elif kind == "movbyte":
                    buf += b"\xC6\x05" + (labels[payload[0]] + payload[1]).to_bytes(4, "little") + bytes([payload[2]])
                elif kind == "movbytereg":
                    buf += bytes([0x88, 0x05 | (payload[2] << 3)]) + (labels[payload[0]] + payload[1]).to_bytes(4, "little")
            except KeyError as exc:
                raise Discard("unknown label %s" % exc)
            off = nxt
        if "main" not in labels or "end" not in labels:
            raise Discard("no main/end")
        if len(buf) > 0xF00:
            raise Discard("program too large")
        self.code = bytes(buf)
        self.labels = labels
        self.instrs = instrs
        self.entry = labels["main"]
        self.end = labels["end"]


IMMS = [0, 1, 2, 3, 7, 0x10, 0x7f, 0x80, 0xff, 0x100, 0xffff, 0x12345678, 0x7fffffff]


def gen_program_x86(rng, feat, bits=32):
    """Generate a terminating x86 program as assembly lines.
    @feat: set of features: 'mem', 'straddle', 'stack', 'call', 'loop', 'branch',
           'rep', 'indirect', 'smc', 'ro'"""
    R = ["EAX", "EBX", "ECX", "EDX", "ESI", "EDI"] if bits == 32 else ["RAX", "RBX", "RCX", "RDX", "RSI", "RDI"]
    W = "DWORD" if bits == 32 else "QWORD"
    free = list(R)
    lines = ["main:"]
    label_n = [0]
    subs = []
    cells = []

    def lab():
        label_n[0] += 1
        return "L%d" % label_n[0]

    def data_addr(size):
        r = rng.random()
        if "straddle" in feat and r < 0.25:
            return D1 - rng.randint(1, size - 1) if size > 1 else D1 - 1
        if "ro" in feat and r < 0.30:
            return RO + rng.choice([0, 4, 0x20])
        page = rng.choice([D0, D0, D1])
        return page + rng.choice([0, 4, 8, 0x10, 0x21, 0x40, 0x7c])

    SUB8 = {"EAX": "AL", "EBX": "BL", "ECX": "CL", "EDX": "DL"}
    SUB16 = {"EAX": "AX", "EBX": "BX", "ECX": "CX", "EDX": "DX", "ESI": "SI", "EDI": "DI"}
    CCS = ["Z", "NZ", "B", "AE", "S", "NS", "BE", "A", "L", "GE", "LE", "G", "O", "PE"]

    def alu2(regs):
        """Less common integer instructions (32-bit mode): counts taken from CL and wider than the operand, narrow
        operands, double shifts, bit scans and tests, conditional moves, implicit EDX:EAX operands."""
        a, b = rng.choice(regs), rng.choice(regs)
        k = rng.choice([0, 0, 0, 1, 1, 2, 3, 4, 5, 6, 7, 8, 9, 10, 11])
        if k == 0:
            view = rng.choice([a, SUB16.get(a, a), SUB8.get(a, a)])
            return "%s %s, CL" % (rng.choice(["SAR", "SHL", "SHR", "ROL", "ROR", "RCL", "RCR"]), view)
        if k == 1:
            view = rng.choice([SUB16.get(a, a), SUB8.get(a, a), a])
            return "%s %s, %d" % (rng.choice(["SAR", "SHL", "SHR", "ROL", "ROR", "RCL", "RCR"]), view, rng.choice([1, 7, 9, 15, 17, 31]))
        if k == 2:
            return "%s %s, %s, %s" % (rng.choice(["SHLD", "SHRD"]), a, b, rng.choice(["CL", "0x5", "0x1f"]))
        if k == 3:
            return "%s %s, %s" % (rng.choice(["BSF", "BSR"]), a, b)
        if k == 4:
            return "MOVSX %s, %s" % (a, rng.choice([SUB8.get(b, "AL"), SUB16.get(b, "AX")]))
        if k == 5:
            return "CMOV%s %s, %s" % (rng.choice(CCS), a, b)
        if k == 6:
            return "SET%s %s" % (rng.choice(CCS), SUB8.get(a, SUB8.get(regs[0], "AL")) if (a in SUB8 or regs[0] in SUB8) else "CMOVZ %s, %s" % (a, b))
        if k == 7:
            return rng.choice(["BSWAP %s" % a, "XADD %s, %s" % (a, b), "IMUL %s, %s, 0x%x" % (a, b, rng.choice([3, 0x7f, 0xff]))])
        if k == 8:
            return "%s %s, %s" % (rng.choice(["BT", "BTS", "BTR", "BTC"]), a, rng.choice([b, "0x3", "0x1f"]))
        if "EAX" in regs and "EDX" in regs:
            return rng.choice(["CDQ", "MUL %s" % b, "IMUL %s" % b, "CMPXCHG %s, %s" % (a, b), "CBW", "CWDE", "LAHF", "SAHF"])
        return "SAR %s, %d" % (a, rng.choice([1, 31]))

    def alu(regs):
        if bits == 32 and "exotic" in feat and (rng.random() < 0.3 or "exotic_only" in feat):
            return alu2(regs)
        op = rng.choice(["MOV", "ADD", "SUB", "XOR", "AND", "OR", "INC", "DEC", "NOT", "NEG", "SHL", "SHR", "LEA", "IMUL", "XCHG", "CMP", "TEST", "MOVZX", "ROL", "ADC", "SBB"])
        a = rng.choice(regs)
        b = rng.choice(regs)
        if op in ("INC", "DEC", "NOT", "NEG"):
            return "%s %s" % (op, a)
        if op in ("SHL", "SHR", "ROL"):
            return "%s %s, %d" % (op, a, rng.choice([1, 4, 8, 16, 31]))
        if op == "LEA":
            return "LEA %s, %s PTR [%s+%s*%d+0x%x]" % (a, W, b, rng.choice(regs), rng.choice([1, 4]), rng.choice([4, 0x7f, 0x123]))
        if op == "IMUL":
            return "IMUL %s, %s" % (a, b)
        if op == "XCHG":
            return "XCHG %s, %s" % (a, b)
        if op == "MOVZX":
            return "MOVZX %s, %s" % (a, {"EAX": "AL", "EBX": "BL", "ECX": "CL", "EDX": "DL", "RAX": "AL", "RBX": "BL", "RCX": "CL", "RDX": "DL"}.get(b, "AL"))
        if rng.random() < 0.5:
            return "%s %s, 0x%x" % (op, a, rng.choice(IMMS))
        return "%s %s, %s" % (op, a, b)

    def mem(regs):
        size = rng.choice([1, 2, 4, 4] + ([8] if bits == 64 else []))
        ptr = {1: "BYTE", 2: "WORD", 4: "DWORD", 8: "QWORD"}[size]
        reg32 = rng.choice(regs)
        sub = {"EAX": ("AL", "AX"), "EBX": ("BL", "BX"), "ECX": ("CL", "CX"), "EDX": ("DL", "DX"),
               "RAX": ("AL", "AX", "EAX"), "RBX": ("BL", "BX", "EBX"), "RCX": ("CL", "CX", "ECX"), "RDX": ("DL", "DX", "EDX")}
        if size == 1:
            r = sub.get(reg32, sub[R[0]])[0] if reg32 in sub else "AL"
        elif size == 2:
            r = sub.get(reg32, sub[R[0]])[1] if reg32 in sub else "AX"
        elif size == 4 and bits == 64:
            r = sub.get(reg32, sub[R[0]])[2] if reg32 in sub else "EAX"
        else:
            r = reg32
        addr = data_addr(size)
        kind = rng.choice(["store", "store", "load", "load", "rmw", "rmw_imm", "two_mem"])
        if kind == "two_mem":
            # instructions that read one location and write another one
            can_movs = bits == 32 and "ESI" in regs and "EDI" in regs      # never clobber a loop counter
            k2 = rng.choice(["push_mem", "pop_mem"] + (["movs"] if can_movs else []))
            if k2 == "push_mem":
                return "PUSH %s PTR [0x%x]\nPOP %s" % (W, data_addr(4), reg32)
            if k2 == "pop_mem":
                return "PUSH %s\nPOP %s PTR [0x%x]" % (reg32, W, data_addr(4))
            return "MOV ESI, 0x%x\nMOV EDI, 0x%x\n%s" % (data_addr(4), data_addr(4), rng.choice(["MOVSB", "MOVSD", "MOVSW"]))
        if kind == "store":
            return "MOV %s PTR [0x%x], %s" % (ptr, addr, r)
        if kind == "load":
            return "MOV %s, %s PTR [0x%x]" % (r, ptr, addr)
        if kind == "rmw":
            return "%s %s PTR [0x%x], %s" % (rng.choice(["ADD", "XOR", "SUB", "OR"]), ptr, addr, r)
        return "%s %s PTR [0x%x], 0x%x" % (rng.choice(["ADD", "XOR", "AND"]), ptr, addr, rng.choice([1, 0x11, 0x7f]))

    def soft_exc(regs):
        # software interrupts and a division whose divisor may be zero: the host handles the exception
        # (see soft_exception_effect) and the guest carries on
        k = rng.random()
        if k < 0.7 or bits != 32 or not all(x in regs for x in ("EAX", "ECX", "EDX")):
            return [rng.choice(["INT 0x80", "INT 0x21", "INT 0x3", "SYSCALL"])]
        pre = [rng.choice(["AND ECX, 0x1", "AND ECX, 0x3", "XOR ECX, ECX", "MOV ECX, 0x7"]), rng.choice(["MOV EDX, 0x0", "AND EDX, 0x1"])]
        return pre + [rng.choice(["DIV ECX", "IDIV ECX"])]

    def body(n, regs, depth):
        out = []
        for _ in range(n):
            if "exc" in feat and rng.random() < 0.1:
                out.extend(soft_exc(regs))
                continue
            r = rng.random()
            if r < 0.40 or not feat:
                out.append(alu(regs))
            elif r < 0.62 and "mem" in feat:
                out.extend(mem(regs).split("\n"))
            elif r < 0.64 and "stack" in feat and "multi" in feat and bits == 32:
                # one instruction, eight stores / eight loads
                out.append("PUSHAD")
                out.extend(body(rng.randint(0, 2), regs, depth + 1) if depth < 2 else [])
                out.append("POPAD")
            elif r < 0.70 and "stack" in feat and "exotic" in feat and bits == 32 and rng.random() < 0.5:
                # one instruction reading and writing the same stack slot
                a = rng.choice(regs)
                k = rng.randrange(3)
                if k == 0:
                    out.append("PUSH DWORD PTR [ESP+0xFFFFFFFC]")
                    out.append("POP %s" % a)
                elif k == 1:
                    out.append("PUSH %s" % a)
                    out.append("ADD DWORD PTR [ESP], %s" % rng.choice(regs))
                    out.append("POP DWORD PTR [ESP+0xFFFFFFFC]")
                elif depth < 2 and "call" in feat:
                    # call through the slot that receives the return address
                    name = "sub%d" % len(subs)
                    subs.append(name)
                    out.append("MOV %s, %s" % (a, name))
                    out.append("MOV DWORD PTR [ESP+0xFFFFFFFC], %s" % a)
                    out.append("CALL DWORD PTR [ESP+0xFFFFFFFC]")
                else:
                    out.append("XCHG DWORD PTR [0x%x], %s" % (data_addr(4), a))
            elif r < 0.70 and "stack" in feat:
                a, b = rng.choice(regs), rng.choice(regs)
                out.append("PUSH %s" % a)
                out.extend(body(rng.randint(0, 2), regs, depth + 1) if depth < 2 else [])
                out.append("POP %s" % b)
            elif r < 0.76 and "call" in feat and depth < 2:
                name = "sub%d" % len(subs)
                subs.append(name)
                out.append("CALL %s" % name)
            elif r < 0.86 and "branch" in feat:
                l = lab()
                out.append("%s %s, 0x%x" % (rng.choice(["CMP", "TEST"]), rng.choice(regs), rng.choice([0, 1, 2, 5])))
                out.append("%s %s" % (rng.choice(["JZ", "JNZ", "JB", "JAE", "JS", "JNS", "JBE", "JA", "JL", "JGE"]), l))
                out.extend(body(rng.randint(1, 3), regs, depth + 1) if depth < 3 else [alu(regs)])
                out.append("%s:" % l)
            elif r < 0.93 and "loop" in feat and depth < 2 and len(regs) > 2:
                cnt = regs[-1]
                inner = regs[:-1]
                l = lab()
                out.append("MOV %s, %d" % (cnt, rng.randint(1, 4)))
                out.append("%s:" % l)
                out.extend(body(rng.randint(1, 4), inner, depth + 1))
                out.append("DEC %s" % cnt)
                out.append("JNZ %s" % l)
            elif r < 0.96 and "rep" in feat and bits == 32 and all(x in regs for x in ("ESI", "EDI", "ECX")):
                out.append("MOV ESI, 0x%x" % (D0 + rng.choice([0, 4, 0x20])))
                out.append("MOV EDI, 0x%x" % (rng.choice([D0 + 0x100, D1 - 3, D1 + 0x10])))
                out.append("MOV ECX, %d" % rng.randint(1, 6))
                out.append("CLD")
                out.append(rng.choice(["REP MOVSB", "REP STOSB", "REP MOVSD"]))
            elif r < 0.98 and "indirect" in feat:
                l = lab()
                reg = rng.choice(regs)
                out.append("MOV %s, %s" % (reg, l))
                out.append("JMP %s" % reg)
                out.append(alu(regs))
                out.append("%s:" % l)
            else:
                out.append(alu(regs))
        return out

    n = rng.randint(12, 30) if "exotic_only" in feat else rng.randint(3, 14)
    main = body(n, free, 0)
    if "rep_sure" in feat and bits == 32:
        snippet = ["MOV ESI, 0x%x" % (D0 + rng.choice([0, 4, 0x20])), "MOV EDI, 0x%x" % (rng.choice([D0 + 0x100, D1 - 3, D1 + 0x10])),
                   "MOV ECX, %d" % rng.randint(1, 6), "CLD", rng.choice(["REP MOVSB", "REP STOSB", "REP MOVSD"])]
        main = (snippet + main) if rng.random() < 0.5 else (main + snippet)
    quiet = "smc" in feat and rng.random() < 0.25
    if quiet:
        # no guest store into code at all: only the host patches this program (its tail cell).  A pending host
        # write is otherwise swept up by the next guest-triggered invalidation, which hides how it was handled
        pass
    elif "smc" in feat:
        # code cells: MOV reg, imm32 whose immediate guest stores overwrite, then log
        ncell = rng.randint(2, 5)
        for i in range(ncell):
            cells.append("cell%d" % i)
        seq = []
        for i in range(ncell):
            seq.append("cell%d:" % i)
            seq.append("MOV EAX, 0x%x" % (0x11110000 + i))          # B8 imm32: imm at cell+1
            seq.append("MOV DWORD PTR [0x%x], EAX" % (D0 + 0x200 + 4 * i))
        jcell = rng.random() < 0.5
        if jcell:
            # a patched jump: JMP SHORT over a five-byte instruction that is dead (never translated) until a guest store
            # zeroes the displacement.  While it is dead, the displacement byte is the last byte of a block *and* of a
            # translated range, inside the loop over the cells
            at = 3 * rng.randrange(ncell + 1)
            lj = lab()
            seq[at:at] = ["jc7:", "JMPS %s" % lj, "XOR EAX, 0x5a5a5a5a", "%s:" % lj, "MOV DWORD PTR [0x%x], EAX" % (D0 + 0x220)]
        head = rng.random() < 0.5
        if head:
            # a cell in the head of the program: it is executed once, belongs to the entry block only,
            # and is overwritten later (an invalidation that must not disturb overlapping blocks)
            main = ["cell9:", "MOV EAX, 0x11110009", "MOV DWORD PTR [0x%x], EAX" % (D0 + 0x224)] + main
        writers = []
        for _ in range(rng.randint(1, 4)):
            tgt = 9 if head and rng.random() < 0.35 else rng.randrange(ncell)
            byte = rng.randint(1, 4)
            writers.append("MOV BYTE PTR [cell%d+%d], %s" % (tgt, byte, "0x%x" % rng.getrandbits(8) if rng.random() < 0.6
                                                            else rng.choice(["BL", "CL", "DL", "AL"])))
        if rng.random() < 0.3:
            # a string store into a cell: the stores sit in an inner IR block of the instruction, the block that
            # leaves the instruction has no memory access
            tgt = rng.randrange(ncell)
            at = rng.randint(0, len(writers))
            writers[at:at] = ["PUSH EDI", "PUSH ECX", "MOV EDI, cell%d" % tgt, "INC EDI", "MOV ECX, %d" % rng.randint(1, 4),
                              "REP STOSB", "POP ECX", "POP EDI"]
        if jcell:
            writers.insert(rng.randint(0, len(writers)), "MOV BYTE PTR [jc7+1], 0x0")
            if rng.random() < 0.4:
                writers.insert(rng.randint(0, len(writers)), "MOV BYTE PTR [jc7+1], 0x5")
        lcell = lab()
        pos = rng.choice(["before", "between", "loop", "nested", "nested"])
        if pos != "nested" and rng.random() < 0.35:
            # a string store patches the cell that follows it at once, in the same block: nothing with a memory
            # access of its own runs between the store and the patched instruction
            kcell = rng.randrange(ncell)
            at = seq.index("cell%d:" % kcell)
            seq[at:at] = ["MOV EDI, cell%d" % kcell, "INC EDI", "MOV ECX, %d" % rng.randint(1, 4), "REP STOSB"]
        if pos == "before":
            main = main + writers + seq
        elif pos == "between":
            main = main + seq[:3] + writers + seq[3:] + seq[:0]
        elif pos == "nested":
            # the cells run in an inner loop that is translated (twice: from the entry block falling into it
            # and from its back edge) before anything is written; the writers run between two passes
            lo = lab()
            main = main + ["MOV EDI, 2", "%s:" % lo, "MOV EDX, 2", "%s:" % lcell] + seq + \
                ["DEC EDX", "JNZ %s" % lcell] + writers + ["DEC EDI", "JNZ %s" % lo]
        else:
            cnt = "EDX"
            main = main + ["MOV %s, 2" % cnt, "%s:" % lcell] + seq + writers + ["DEC %s" % cnt, "JNZ %s" % lcell]
    tail = "smc" in feat and (quiet or rng.random() < 0.5)
    if tail:
        # a cell at the very end of the translated code: the last byte of its immediate is the last byte of the
        # last translated range (the end address carries a breakpoint and is never translated).  It runs once per
        # pass over the program, so only a warm start, a restart or a host write sees it translated before it is patched
        if rng.random() < 0.5:          # otherwise only the host writes to it
            main = ["MOV BYTE PTR [cell8+%d], %s" % (rng.choice([4, 4, 3, 1]), rng.choice(["BL", "CL", "DL", "0x%x" % rng.getrandbits(8)]))] + main
    lines.extend(main)
    lines.append("JMP cell8" if tail else "JMP end")
    for name in subs:
        lines.append("%s:" % name)
        lines.extend(body(rng.randint(1, 3), free[:3], 2))
        lines.append("RET")
    if tail:
        lines.append("cell8:")
        lines.append("MOV EAX, 0x11110008")
    lines.append("end:")
    lines.append("NOP")
    return lines


def gen_program_arm(rng, feat):
    """Terminating ARM (little endian) program.  R10 = data page 0, R11 = data page 1, R9 = straddling base,
    R8 = read-only page (set through the initial registers); R4/R5 are loop counters."""
    R = ["R0", "R1", "R2", "R3"]
    lines = ["main:"]
    n_label = [0]
    subs = []

    def lab():
        n_label[0] += 1
        return "L%d" % n_label[0]

    def alu2():
        a, b, c, d = rng.choice(R), rng.choice(R), rng.choice(R), rng.choice(R)
        k = rng.choice([0, 0, 1, 1, 1, 2, 3, 4, 5, 6])
        sh = rng.choice(["LSL", "LSR", "ASR", "ASR", "ROR"])
        if k == 0:
            return "%s %s, %s, %s %s %s" % (rng.choice(["ADD", "SUB", "EOR", "ORR", "AND", "ADDS", "RSB"]), a, b, c, sh, d)
        if k == 1:
            return "%s %s, %s %s %s" % (rng.choice(["MOV", "MOVS", "MVN"]), a, b, sh, rng.choice([c, "0x1f", "0x1"]))
        if k == 2:
            return "MLA %s, %s, %s, %s" % (a, b if b != a else R[(R.index(a) + 1) % 4], c, d)
        if k == 3:
            hi = R[(R.index(a) + 1) % 4]
            return "%s %s, %s, %s, %s" % (rng.choice(["UMULL", "SMULL"]), a, hi, c, d)
        if k == 4:
            return rng.choice(["CLZ %s, %s" % (a, b), "REV %s, %s" % (a, b), "RSC %s, %s, %s" % (a, b, c)])
        if k == 5:
            return "UBFX %s, %s, 0x%x, 0x%x" % (a, b, rng.choice([0, 4, 16]), rng.choice([1, 8, 16]))
        return "MOV %s, %s RRX" % (a, b)

    def alu():
        if "exotic" in feat and (rng.random() < 0.3 or "exotic_only" in feat):
            return alu2()
        a, b, c = rng.choice(R), rng.choice(R), rng.choice(R)
        op = rng.choice(["ADD", "SUB", "EOR", "ORR", "AND", "RSB", "ADC", "SBC", "BIC", "MOV", "MVN", "MUL", "CMP", "TST",
                         "ADDS", "SUBS", "MOVS", "ADDEQ", "MOVNE", "SUBGT", "ADDCS"])
        imm = rng.choice([0, 1, 7, 0xFF])
        if op in ("MOV", "MVN", "MOVS", "MOVNE"):
            return "%s %s, %s" % (op, a, rng.choice([b, "0x%x" % imm]))
        if op in ("CMP", "TST"):
            return "%s %s, %s" % (op, a, rng.choice([b, "0x%x" % imm]))
        if op == "MUL":
            return "MUL %s, %s, %s" % (a, b, c) if a != b else "MUL %s, %s, %s" % (a, c if c != a else "R1" if a != "R1" else "R2", b)
        if rng.random() < 0.3:
            return "%s %s, %s, %s %s 0x%x" % (op, a, b, c, rng.choice(["LSL", "LSR"]), rng.choice([1, 8]))
        return "%s %s, %s, %s" % (op, a, b, rng.choice([c, "0x%x" % imm]))

    def mem():
        a = rng.choice(R)
        base, off = rng.choice([("R10", rng.choice([0, 4, 8, 0x10, 0x21, 0x40])), ("R11", rng.choice([0, 4, 0x10, 0x7c])),
                                ("R9", rng.choice([0, 1, 2])) if "straddle" in feat else ("R10", 4),
                                ("R8", rng.choice([0, 4])) if "ro" in feat else ("R10", 8)])
        kind = rng.choice(["LDR", "STR", "LDRB", "STRB", "LDRH", "STRH"])
        if base == "R8" and kind.startswith("STR"):
            kind = "LDR" + kind[3:]
        if "multi" in feat and rng.random() < 0.2:
            return "%s %s, {R0, R1, R2}" % (rng.choice(["STMIA", "LDMIA"]), rng.choice(["R10", "R11", "R9"] if "straddle" in feat else ["R10", "R11"]))
        return "%s %s, [%s, 0x%x]" % (kind, a, base, off)

    def body(n, depth):
        out = []
        for _ in range(n):
            if "exc" in feat and rng.random() < 0.1:
                # supervisor calls, also conditional ones (the exception is raised from a secondary IR block)
                out.append("SVC%s 0x%x" % (rng.choice(["", "", "NE", "EQ", "GT", "CS"]), rng.choice([0, 1, 5])))
                continue
            r = rng.random()
            if r < 0.4 or not feat:
                out.append(alu())
            elif r < 0.62 and "mem" in feat:
                out.append(mem())
            elif r < 0.70 and "stack" in feat:
                out.append("STMDB SP!, {%s, %s}" % tuple(sorted(rng.sample(R, 2), key=lambda x: int(x[1:]))))
                out.extend(body(rng.randint(0, 2), depth + 1) if depth < 2 else [])
                out.append("LDMIA SP!, {%s, %s}" % tuple(sorted(rng.sample(R, 2), key=lambda x: int(x[1:]))))
            elif r < 0.76 and "call" in feat and depth < 2:
                name = "sub%d" % len(subs)
                subs.append(name)
                out.append("BL %s" % name)
            elif r < 0.88 and "branch" in feat:
                l = lab()
                out.append("CMP %s, 0x%x" % (rng.choice(R), rng.choice([0, 1, 2, 7])))
                out.append("B%s %s" % (rng.choice(["EQ", "NE", "CS", "CC", "MI", "PL", "HI", "LS", "GE", "LT", "GT", "LE"]), l))
                out.extend(body(rng.randint(1, 3), depth + 1) if depth < 3 else [alu()])
                out.append("%s:" % l)
            elif r < 0.96 and "loop" in feat and depth < 2:
                cnt = "R4" if depth == 0 else "R5"
                l = lab()
                out.append("MOV %s, 0x%x" % (cnt, rng.randint(1, 4)))
                out.append("%s:" % l)
                out.extend(body(rng.randint(1, 4), depth + 1))
                out.append("SUBS %s, %s, 0x1" % (cnt, cnt))
                out.append("BNE %s" % l)
            else:
                out.append(alu())
        return out

    lines.extend(body(rng.randint(12, 30) if "exotic_only" in feat else rng.randint(3, 14), 0))
    lines.append("B end")
    for name in subs:
        lines.append("%s:" % name)
        lines.extend(alu() for _ in range(rng.randint(1, 3)))
        lines.append("BX LR")
    lines.append("end:")
    lines.append("MOV R0, R0")
    return lines


def gen_program_a64(rng, feat):
    """Terminating AArch64 (little endian) program.  X10 = data page 0, X11 = data page 1, X9 = straddling base,
    X8 = read-only page (initial registers); X4/X5 loop counters; X0-X3 (and their W views) scratch."""
    lines = ["main:"]
    n_label = [0]
    subs = []

    def lab():
        n_label[0] += 1
        return "L%d" % n_label[0]

    def reg(w=None):
        w = rng.choice("XXW") if w is None else w
        return "%s%d" % (w, rng.randrange(4))

    def alu():
        w = rng.choice("XXW")
        a, b, c = reg(w), reg(w), reg(w)
        op = rng.choice(["ADD", "SUB", "EOR", "ORR", "AND", "ADDS", "SUBS", "ADC", "CSEL", "CSINC", "MADD", "NEG", "MVN", "MOV",
                         "MOVZ", "CMP", "TST", "SHIFTED"] + (["UDIV", "SDIV"] if "exc" in feat else []))
        if op in ("UDIV", "SDIV"):
            # the divisor is X3/W3 (the host's handler supplies one when it is zero)
            pre = rng.choice(["AND X3, X3, 0x1", "EOR X3, X3, X3", "MOVZ X3, 0x5"])
            d = reg(w)
            while d[1:] == "3":
                d = reg(w)
            return "%s\n%s %s, %s, %s3" % (pre, op, d, b, w)
        if op in ("NEG", "MVN", "MOV"):
            return "%s %s, %s" % (op, a, b)
        if op == "MOVZ":
            return "MOVZ %s, 0x%x" % (a, rng.choice([0, 1, 0x12, 0xFFFF]))
        if op in ("CMP", "TST"):
            return "%s %s, %s" % (op, a, b if op == "TST" or rng.random() < 0.5 else "0x%x" % rng.choice([0, 1, 7]))
        if op in ("CSEL", "CSINC"):
            return "%s %s, %s, %s, %s" % (op, a, b, c, rng.choice(["EQ", "NE", "CS", "CC", "MI", "PL", "GE", "LT", "GT", "LE", "HI", "LS"]))
        if op == "MADD":
            return "MADD %s, %s, %s, %s" % (a, b, c, reg(w))
        if op == "SHIFTED":
            return "%s %s, %s, %s %s 0x%x" % (rng.choice(["ADD", "SUB", "EOR", "ORR", "AND"]), a, b, c, rng.choice(["LSL", "LSR", "ASR"]),
                                              rng.choice([1, 4, 8, 31]))
        if op == "ADC":
            return "ADC %s, %s, %s" % (a, b, c)
        if op in ("EOR", "ORR", "AND"):
            return "%s %s, %s, %s" % (op, a, b, rng.choice([c, "0x%x" % rng.choice([1, 7, 0xFF, 0xFF00])]))
        return "%s %s, %s, %s" % (op, a, b, rng.choice([c, "0x%x" % rng.choice([0, 1, 7, 0xFF])]))

    def mem():
        n = rng.randrange(4)
        base, off = rng.choice([("X10", rng.choice([0, 8, 0x10, 0x40])), ("X11", rng.choice([0, 8, 0x10, 0x78])),
                                ("X9", rng.choice([0, 1, 2, -3])) if "straddle" in feat else ("X10", 8),
                                ("X8", rng.choice([0, 8])) if "ro" in feat else ("X10", 0x10)])
        if "multi" in feat and rng.random() < 0.2 and base != "X9" and base != "X8":
            return "%s X%d, X%d, [%s, 0x%x]" % (rng.choice(["STP", "LDP"]), n, (n + 1) % 4, base, off & ~7)
        store = rng.random() < 0.5 and base != "X8"
        if base == "X9" or off % 8:
            # unscaled forms take any byte offset
            kind = rng.choice(["X", "W"])
            return "%s %s%d, [%s, 0x%x]" % ("STUR" if store else "LDUR", kind, n, base, off & 0xFFFFFFFFFFFFFFFF)
        kind = rng.choice(["X", "W", "B", "H", "SW"])
        if kind in ("X", "W"):
            return "%s %s%d, [%s, 0x%x]" % ("STR" if store else "LDR", kind, n, base, off)
        if kind == "SW":
            return "LDRSW X%d, [%s, 0x%x]" % (n, base, off)
        return "%s%s W%d, [%s, 0x%x]" % ("STR" if store else "LDR", kind, n, base, off)

    _mem = mem

    def mem():
        return _mem().replace(", 0x0]", "]")

    def body(n, depth):
        out = []
        for _ in range(n):
            if "exc" in feat and rng.random() < 0.08:
                out.append("SVC 0x%x" % rng.choice([0, 1, 5]))
                continue
            r = rng.random()
            if r < 0.4 or not feat:
                out.extend(alu().split("\n"))
            elif r < 0.62 and "mem" in feat:
                out.append(mem())
            elif r < 0.70 and "stack" in feat:
                a, b = rng.sample(range(4), 2)
                if rng.random() < 0.5:
                    out.append("STP X%d, X%d, [SP, 0xFFFFFFFFFFFFFFF0]!" % (a, b))
                    out.extend(body(rng.randint(0, 2), depth + 1) if depth < 2 else [])
                    out.append("LDP X%d, X%d, [SP], 0x10" % tuple(rng.sample(range(4), 2)))
                else:
                    out.append("STR X%d, [SP, 0xFFFFFFFFFFFFFFF0]!" % a)
                    out.extend(body(rng.randint(0, 2), depth + 1) if depth < 2 else [])
                    out.append("LDR X%d, [SP], 0x10" % b)
            elif r < 0.76 and "call" in feat and depth < 2:
                name = "sub%d" % len(subs)
                subs.append(name)
                out.append("BL %s" % name)
            elif r < 0.88 and "branch" in feat:
                l = lab()
                if rng.random() < 0.3:
                    out.append("%s %s, %s" % (rng.choice(["CBZ", "CBNZ"]), reg(), l))
                else:
                    out.append("CMP %s, 0x%x" % (reg(), rng.choice([0, 1, 2, 7])))
                    out.append("B.%s %s" % (rng.choice(["EQ", "NE", "CS", "CC", "MI", "PL", "HI", "LS", "GE", "LT", "GT", "LE"]), l))
                out.extend(body(rng.randint(1, 3), depth + 1) if depth < 3 else alu().split("\n"))
                out.append("%s:" % l)
            elif r < 0.96 and "loop" in feat and depth < 2:
                cnt = "X4" if depth == 0 else "X5"
                l = lab()
                out.append("MOVZ %s, 0x%x" % (cnt, rng.randint(1, 4)))
                out.append("%s:" % l)
                out.extend(body(rng.randint(1, 4), depth + 1))
                out.append("SUBS %s, %s, 0x1" % (cnt, cnt))
                out.append("B.NE %s" % l)
            else:
                out.extend(alu().split("\n"))
        return out

    lines.extend(body(rng.randint(3, 14), 0))
    lines.append("B end")
    for name in subs:
        lines.append("%s:" % name)
        for _ in range(rng.randint(1, 3)):
            lines.extend(alu().split("\n"))
        lines.append("RET")
    lines.append("end:")
    lines.append("NOP")
    return lines


def gen_program_mips(rng, feat):
    """Terminating MIPS32 (little endian) program.  S0 = data page 0, S1 = data page 1, S2 = straddling base,
    S3 = read-only page; S4/S5 loop counters.  Every branch is followed by its delay slot."""
    R = ["T0", "T1", "T2", "T3", "V0", "A0", "A1"]
    lines = ["main:"]
    n_label = [0]
    subs = []

    def lab():
        n_label[0] += 1
        return "L%d" % n_label[0]

    def alu():
        a, b, c = rng.choice(R), rng.choice(R), rng.choice(R)
        op = rng.choice(["ADDU", "SUBU", "XOR", "OR", "AND", "SLT", "SLTU", "ADDIU", "ANDI", "ORI", "XORI", "SLL", "SRL", "SRA",
                         "LUI", "SLTIU", "NOR"])
        if op in ("ADDIU", "ANDI", "ORI", "XORI", "SLTIU"):
            return "%s %s, %s, 0x%x" % (op, a, b, rng.choice([0, 1, 2, 7, 0x10, 0xFF, 0x7FFF]))
        if op in ("SLL", "SRL", "SRA"):
            return "%s %s, %s, 0x%x" % (op, a, b, rng.choice([1, 3, 8, 16, 31]))
        if op == "LUI":
            return "LUI %s, 0x%x" % (a, rng.choice([1, 0x1234, 0x8000]))
        return "%s %s, %s, %s" % (op, a, b, c)

    def slot():
        # delay slot: a harmless ALU instruction or a NOP
        return rng.choice(["NOP", alu()])

    def mem():
        a = rng.choice(R)
        base, off = rng.choice([("S0", rng.choice([0, 4, 8, 0x10, 0x21, 0x40])), ("S1", rng.choice([0, 4, 0x10, 0x7c])),
                                ("S2", rng.choice([0, 1, 2])) if "straddle" in feat else ("S0", 4),
                                ("S3", rng.choice([0, 4])) if "ro" in feat else ("S0", 8)])
        kind = rng.choice(["LW", "SW", "LB", "SB", "LH", "SH", "LBU", "LHU"])
        if base == "S3" and kind.startswith("S"):
            kind = "LW"
        return "%s %s, 0x%x(%s)" % (kind, a, off, base)

    def body(n, depth):
        out = []
        for _ in range(n):
            r = rng.random()
            if r < 0.4 or not feat:
                out.append(alu())
            elif r < 0.62 and "mem" in feat:
                out.append(mem())
            elif r < 0.70 and "stack" in feat:
                out.append("ADDIU SP, SP, 0xFFFC")
                out.append("SW %s, 0x0(SP)" % rng.choice(R))
                out.extend(body(rng.randint(0, 2), depth + 1) if depth < 2 else [])
                out.append("LW %s, 0x0(SP)" % rng.choice(R))
                out.append("ADDIU SP, SP, 0x4")
            elif r < 0.76 and "call" in feat and depth < 1:
                name = "sub%d" % len(subs)
                subs.append(name)
                out.append("JAL %s" % name)
                out.append(slot())
            elif r < 0.88 and "branch" in feat:
                l = lab()
                out.append("%s %s, %s, %s" % (rng.choice(["BEQ", "BNE"]), rng.choice(R), rng.choice(R + ["ZERO"]), l))
                out.append(slot() if "slotmem" not in feat or rng.random() < 0.7 else mem())
                out.extend(body(rng.randint(1, 3), depth + 1) if depth < 3 else [alu()])
                out.append("%s:" % l)
            elif r < 0.96 and "loop" in feat and depth < 2:
                cnt = "S4" if depth == 0 else "S5"
                l = lab()
                out.append("ADDIU %s, ZERO, 0x%x" % (cnt, rng.randint(1, 4)))
                out.append("%s:" % l)
                out.extend(body(rng.randint(1, 4), depth + 1))
                out.append("ADDIU %s, %s, 0xFFFF" % (cnt, cnt))
                out.append("BNE %s, ZERO, %s" % (cnt, l))
                out.append(slot())
            else:
                out.append(alu())
        return out

    lines.extend(body(rng.randint(3, 14), 0))
    lines.append("J end")
    lines.append("NOP")
    for name in subs:
        lines.append("%s:" % name)
        lines.extend(alu() for _ in range(rng.randint(1, 3)))
        lines.append("JR RA")
        lines.append(slot())
    lines.append("end:")
    lines.append("NOP")
    lines.append("NOP")
    return lines


def gen_program(arch, rng, feat):
    arch = family(arch)
    if arch == "arml":
        return gen_program_arm(rng, feat)
    if arch == "mips32l":
        return gen_program_mips(rng, feat)
    if arch == "aarch64l":
        return gen_program_a64(rng, feat)
    return gen_program_x86(rng, feat, bits=64 if arch == "x86_64" else 32)


def default_regs(arch, rng):
    """Initial registers: scratch registers random, base registers on the data pages."""
    arch = family(arch)
    if arch == "arml":
        regs = {r: rng.getrandbits(32) for r in ["R0", "R1", "R2", "R3"]}
        regs.update({"R10": D0, "R11": D1, "R9": D1 - 2, "R8": RO, "R4": 0, "R5": 0})
        return regs
    if arch == "mips32l":
        regs = {r: rng.getrandbits(32) for r in ["T0", "T1", "T2", "T3", "V0", "A0", "A1", "T4"]}
        regs.update({"S0": D0, "S1": D1, "S2": D1 - 2, "S3": RO, "S4": 0, "S5": 0})
        return regs
    if arch == "aarch64l":
        regs = {"X%d" % i: rng.getrandbits(64) if rng.random() < 0.5 else rng.getrandbits(32) for i in range(4)}
        regs.update({"X10": D0, "X11": D1, "X9": D1 - 2, "X8": RO, "X4": 0, "X5": 0})
        return regs
    if arch == "x86_64":
        # upper halves populated in half of the registers: 32-bit operations must clear them, 64-bit ones use them
        return {r: rng.getrandbits(64) if rng.random() < 0.5 else rng.getrandbits(32)
                for r in ["RAX", "RBX", "RCX", "RDX", "RSI", "RDI", "RBP"]}
    return {r: rng.getrandbits(32) for r in ["EAX", "EBX", "ECX", "EDX", "ESI", "EDI", "EBP"]}


# ---------------------------------------------------------------------------
# the machine under test

def make_jitter(arch, backend, prog, init_regs, knobs):
    e = env()
    info = ARCH_INFO[arch]
    e.JitCore.jitted_block_max_size = knobs.get("cache_limit", 10000)
    j = e.machine(arch).jitter(e.LocationDB(), backend)
    e.JitCore.jitted_block_max_size = 10000
    if backend == "gcc":
        j.jit.libs = e.build.libs_for(info["jitarch"])
        # Cost bound: every block that is (re)translated costs a gcc run.  A schedule that thrashes a tiny block cache
        # under self-modifying code can need hundreds of them; such a run is discarded (counted), not timed out.
        add_block = getattr(j.jit, "add_block", None)
        if add_block is not None:
            count = [0]

            def counted_add_block(block):
                count[0] += 1
                if count[0] > GCC_BLOCK_CAP:
                    raise Discard("more than %d gcc block translations" % GCC_BLOCK_CAP)
                return add_block(block)
            j.jit.add_block = counted_add_block
    j.stack_size = STACK_SIZE
    j.init_stack()
    c = e.csts
    j.vm.add_memory_page(CODE, c.PAGE_READ | c.PAGE_WRITE | c.PAGE_EXEC, prog.code + b"\x90" * 32, "code")
    j.vm.add_memory_page(D0, c.PAGE_READ | c.PAGE_WRITE, bytes((i * 7 + 3) & 0xFF for i in range(0x1000)), "d0")
    j.vm.add_memory_page(D1, c.PAGE_READ | c.PAGE_WRITE, bytes((i * 5 + 1) & 0xFF for i in range(0x1000)), "d1")
    j.vm.add_memory_page(RO, c.PAGE_READ, bytes((i * 3 + 9) & 0xFF for i in range(0x1000)), "ro")
    # a second stack page below the first one: a multi-store instruction (PUSHAD, CALL chains) started
    # near the boundary straddles two pages that the injector can fault independently
    j.vm.add_memory_page(STACK_LOW, c.PAGE_READ | c.PAGE_WRITE, bytes(0x1000), "stack_low")
    for name, val in init_regs.items():
        setattr(j.cpu, name, val)
    j.jit.set_options(jit_maxline=knobs.get("maxline", 50), max_exec_per_call=knobs.get("quantum", 0))
    return j


SOFT_EXC_KINDS = ("INT_XX", "SOFT_BP", "SYSCALL", "DIV_BY_ZERO")


def soft_exception_effect(arch, jitter, kind):
    """What the host's handler of a software exception does, in the reference and in every run under
    test alike: a visible, state-dependent effect (so that a handler invoked at another state leaves
    another state behind), then the flag is cleared and the guest resumes."""
    cpu = jitter.cpu
    if kind == "DIV_BY_ZERO":
        # pc stays on the division: give it a divisor and let it execute again
        if arch == "aarch64l":
            cpu.X3 = 3
        else:
            cpu.ECX = 3
    else:
        reg = "RAX" if arch == "x86_64" else "EAX" if arch.startswith("x86") else "X0" if arch == "aarch64l" else "R0"
        num = cpu.interrupt_num & 0xFF if kind == "INT_XX" else 0
        setattr(cpu, reg, (getattr(cpu, reg) + 0x01010101 * (1 + num) + SOFT_EXC_KINDS.index(kind)) & 0xFFFFFFFF)
    cpu.set_exception(0)


def scratch_regs(arch):
    """Registers the generators treat as data (not bases, counters or the stack pointer)."""
    arch = family(arch)
    if arch == "arml":
        return ["R0", "R1", "R2", "R3"]
    if arch == "aarch64l":
        return ["X0", "X1", "X2", "X3"]
    if arch == "mips32l":
        return ["T0", "T1", "T2", "T3", "V0", "A0", "A1", "T4"]
    if arch == "x86_64":
        return ["RAX", "RBX", "RCX", "RDX", "RSI", "RDI", "RBP"]
    return ["EAX", "EBX", "ECX", "EDX", "ESI", "EDI", "EBP"]


def perturbed(arch, init_regs):
    """Initial registers of the earlier run of a warm start."""
    regs = dict(init_regs)
    for name in scratch_regs(arch):
        if name in regs:
            regs[name] = regs[name] ^ 0x5A5A5A5A
    return regs


def carried_memory(arch, prog, init_regs):
    """Memory image left behind by the earlier run of a carrying warm start (python backend, own jitter)."""
    e = env()
    j = make_jitter(arch, "python", prog, perturbed(arch, init_regs), {})
    for kind in SOFT_EXC_KINDS:
        def on_exc(jitter, kind=kind):
            soft_exception_effect(arch, jitter, kind)
            return True
        j.add_exception_handler(getattr(e.csts, "EXCEPT_" + kind), on_exc)
    j.add_breakpoint(prog.end, lambda jitter: False)
    j.init_run(prog.entry)
    try:
        j.continue_run()
    except Exception as exc:
        raise Discard("earlier run failed: %s" % type(exc).__name__)
    if j.pc != prog.end:
        raise Discard("earlier run did not reach the end")
    mem = j.vm.get_all_memory()
    return {a: mem[a]["data"] for a in mem}


def set_regs(j, regs):
    """cpu.set_gpreg(cpu.get_gpreg()) round trip; JitCore_aarch64's set_gpreg refuses the 8-bit flag
    entries that its own get_gpreg returns, so fall back to one attribute at a time."""
    try:
        j.cpu.set_gpreg(regs)
    except TypeError:
        for name, val in regs.items():
            setattr(j.cpu, name, val)


def digest(j, pcregs, held=None):
    h = hashlib.sha1()
    h.update(b"%x|" % j.pc)
    regs = j.cpu.get_gpreg()
    for k in sorted(regs):
        if k in pcregs or k == "tsc":
            continue
        h.update(("%s=%x;" % (k, regs[k])).encode())
    mem = j.vm.get_all_memory()
    pages = {a: mem[a]["data"] for a in mem}
    if held:
        for a, (data, _) in held.items():
            pages[a] = data
    for a in sorted(pages):
        h.update(b"%x:" % a)
        h.update(pages[a])
    return h.hexdigest()


class Reference(object):
    """Single-step execution on the python backend."""

    def __init__(self, arch, prog, init_regs, smc, host_writes=None, init_mem=None):
        self.arch, self.prog = arch, prog
        self.pcs = []
        self.digests = []
        self.index = {}
        self.ambiguous = False
        host_writes = host_writes or {}
        e = env()
        pcregs = ARCH_INFO[arch]["pcregs"]
        j = make_jitter(arch, "python", prog, init_regs, {"maxline": 1})
        if init_mem:
            # the memory image an earlier run left behind (nothing is translated yet on this fresh jitter)
            for a, data in init_mem.items():
                j.vm.set_mem(a, data)
            j.vm.set_exception(0)
            j.vm.reset_memory_access()
        self.applied_writes = 0
        # per-tick memory accesses of the reference (kind, address, size): what a fault must stop
        self.acc = []
        sb = j.jit.symbexec
        real_read, real_write = sb.mem_read, sb.mem_write

        def spy_read(expr_mem):
            if expr_mem.ptr.is_int() and self.acc:
                self.acc[-1].append(("r", int(expr_mem.ptr), expr_mem.size // 8))
            return real_read(expr_mem)

        def spy_write(dest, data):
            if dest.ptr.is_int() and self.acc:
                self.acc[-1].append(("w", int(dest.ptr), dest.size // 8))
            return real_write(dest, data)
        sb.mem_read, sb.mem_write = spy_read, spy_write

        def cb(jitter):
            if smc:
                jitter.jit.clear_jitted_blocks()
            d = digest(jitter, pcregs)
            if d in self.index:
                self.ambiguous = True
            self.index[d] = len(self.pcs)
            self.pcs.append(jitter.pc)
            self.digests.append(d)
            self.acc.append([])
            if len(self.pcs) > TICK_CAP:
                raise Discard("reference exceeds the tick cap")
            cur = d
            seen = set()
            while cur in host_writes and cur not in seen:
                seen.add(cur)
                for addr, data in host_writes[cur]:
                    jitter.vm.set_mem(addr, data)
                    self.applied_writes += 1
                # the state right after the host writes belongs to the same tick: a later control point
                # of the run under test may observe it (and write again) before the next instruction retires
                cur = digest(jitter, pcregs)
                self.index.setdefault(cur, len(self.pcs) - 1)
            return True
        j.exec_cb = cb
        done = []
        self.exc_log = []               # (digest at the handler, kind) of every software exception, in order

        def make_exc(kind):
            def on_exc(jitter):
                d = digest(jitter, pcregs)
                self.index.setdefault(d, len(self.pcs) - 1)
                self.exc_log.append((d, kind))
                soft_exception_effect(arch, jitter, kind)
                return True
            return on_exc
        for kind in SOFT_EXC_KINDS:
            j.add_exception_handler(getattr(e.csts, "EXCEPT_" + kind), make_exc(kind))

        def stop(jitter):
            done.append(1)
            return False
        j.add_breakpoint(prog.end, stop)
        j.init_run(prog.entry)
        try:
            j.continue_run()
        except Discard:
            raise
        except Exception as exc:
            raise Discard("reference run failed: %s: %s" % (type(exc).__name__, exc))
        if not done:
            raise Discard("reference did not reach the end")
        self.final = digest(j, pcregs)
        self.final_pc = j.pc
        self.ticks = len(self.pcs)
        self.regs = j.cpu.get_gpreg()


class TestRun(object):
    """One execution under a schedule.  @actions: list of [cp, kind, args...]."""

    def __init__(self, pid, case, prog, ref, log, probes, host_write_mode=False):
        self.pid = pid
        self.case = case
        self.cfg = case["cfg"]
        self.prog = prog
        self.ref = ref                  # None in host-write mode (judged afterwards)
        self.log = log
        self.probes = probes
        e = env()
        self.e = e
        self.arch = self.cfg["arch"]
        self.backend = self.cfg["backend"]
        self.pcregs = ARCH_INFO[self.arch]["pcregs"]
        self.cp = 0
        self.last_tick = -1
        self.held = {}                  # addr -> (bytes, access) pages held out by the injector
        self.perm = {}                  # addr -> original access of pages with flipped permission
        self.j_perm = {}                # addr -> access currently in force on those pages
        self.ended = False
        self.want_stop = False
        self.by_cp = {}
        for a in case["actions"]:
            self.by_cp.setdefault(a[0], []).append(a)
        self.bp_model = {}              # addr -> [cb ids] in registration order
        self.events = []                # (tick, kind, ...) debugger actions and hits, for the C23 oracle
        self.stamps = []                # (digest, addr, bytes) host writes, for the reference
        self.cp_digests = []            # digests of all control points (host-write mode)
        self.fault_stops = 0
        self.exc_count = 0              # software-exception handler invocations
        self.mbps = []                  # active memory breakpoints (addr, size, access)
        self.pending_fault = None
        self.last_exec_pc = None
        self.j = None
        self.callbacks = [self._make_cb(k) for k in range(3)]
        self.instr_addrs = [a for a, _ in prog.instrs]

    def probe(self, name, n=1):
        self.probes[name] = self.probes.get(name, 0) + n

    # -- control points -------------------------------------------------------
    def control_point(self, kind, jitter):
        """Evaluate I1 here, then let the scheduled actors act.  Returns True
        if the run must stop at this control point."""
        self.cp += 1
        if self.cp > CP_CAP:
            raise Violation(self.pid + "/no-progress", "more than %d control points" % CP_CAP, {"kind": "cp-cap"})
        d = digest(jitter, self.pcregs, self.held)
        tick = None
        if self.ref is not None:
            tick = self.ref.index.get(d)
            if tick is None or tick < self.last_tick:
                self.diverged(kind, jitter, d, tick)
            self.check_missed_faults(max(self.last_tick, 0), tick)
            self.last_tick = tick
        else:
            self.cp_digests.append(d)
        self.cur_tick = tick
        self.cur_digest = d
        self.log.add("cp", self.cp, kind, hex(jitter.pc), tick)
        stop = False
        for a in self.by_cp.get(self.cp, ()):
            if self.act(a, kind, jitter):
                stop = True
        return stop

    def check_missed_faults(self, t1, t2):
        """The instructions of the ticks [t1, t2) were retired without a fault stop: none of them may
        have touched a byte that the injector had unmapped or protected during that interval."""
        if not (self.held or self.perm):
            return
        c = self.e.csts
        bad = []
        for page, (data, _) in self.held.items():
            bad.append((page, page + len(data), "rw", "unmapped"))
        for page, orig in self.perm.items():
            now = self.j_perm.get(page, 0)
            lost = ("r" if not now & c.PAGE_READ else "") + ("w" if not now & c.PAGE_WRITE else "")
            if lost:
                bad.append((page, page + 0x1000, lost, "protected"))
        for t in range(t1, t2):
            for kind, addr, size in self.ref.acc[t]:
                for lo, hi, kinds, why in bad:
                    if kind in kinds and addr < hi and lo < addr + size:
                        self.probe("missed_fault_detected")
                        raise Violation(self.pid + "/missed-fault",
                                        "%s backend: the instruction at %#x [%s] (tick %d) %s [%#x,+%d) while [%#x,%#x) was %s, "
                                        "and was retired without a fault" % (self.backend, self.ref.pcs[t], self.prog.text_at.get(self.ref.pcs[t], "?"),
                                                                         t, "reads" if kind == "r" else "writes", addr, size, lo, hi, why),
                                        {"backend": self.backend, "access": kind, "why": why,
                                         "straddle": not (lo <= addr and addr + size <= hi)})

    def diverged(self, kind, jitter, d, tick):
        facts = {"backend": self.backend, "at": kind, "maxline": self.cfg["knobs"].get("maxline"),
                 "quantum": self.cfg["knobs"].get("quantum"), "fault_pending": self.pending_fault is not None}
        facts["instr"] = self.prog.text_at.get(jitter.pc, "?").split(" ")[0]
        detail = "%s backend, control point %d (%s) at pc %#x [%s]: state is %s the reference path (last matched tick %d of %d)" % (
            self.backend, self.cp, kind, jitter.pc, self.prog.text_at.get(jitter.pc, "?"),
            "not on" if tick is None else "behind (tick %d) on" % tick, self.last_tick, self.ref.ticks)
        # help the reader: compare with the nearest reference tick at this pc
        cls = "diverged"
        if self.pending_fault is not None or kind == "fault":
            cls = "effect-before-fault"
        raise Violation("%s/%s" % (self.pid, cls), detail, facts)

    # -- actors -----------------------------------------------------------------
    def act(self, a, kind, jitter):
        k = a[1]
        j = jitter
        c = self.e.csts
        if k == "opt":
            j.jit.set_options(jit_maxline=a[2], max_exec_per_call=a[3])
            self.probe("tuner_set_options")
            self.log.add(" act opt", a[2], a[3])
        elif k == "clear":
            j.jit.clear_jitted_blocks()
            self.probe("tuner_clear_cache")
            self.log.add(" act clear")
        elif k == "stop":
            self.probe("stop_requested")
            self.log.add(" act stop")
            return True
        elif k in ("bp_add", "bp_set"):
            if isinstance(a[2], list):
                # a branch target / loop head / subroutine entry: an address that is typically both the
                # start of one translated block and an inner instruction of another
                targets = sorted(v for n, v in self.prog.labels.items() if n not in ("main", "end"))
                if not targets:
                    return False
                addr = targets[a[2][1] % len(targets)]
                self.probe("bp_on_branch_target")
            else:
                addr = self.instr_addrs[a[2] % len(self.instr_addrs)]
            if addr == self.prog.end:
                return False
            if family(self.arch) == "mips32l" and self.prog.text_at.get(addr - 4, "").split(" ")[0] in ("BEQ", "BNE", "J", "JAL", "JR"):
                return False        # a breakpoint inside a branch delay slot has no defined meaning
            cb = a[3] % 3
            standing = addr == j.pc
            if k == "bp_add":
                j.add_breakpoint(addr, self.callbacks[cb])
                lst = self.bp_model.setdefault(addr, [])
                if cb not in lst:
                    lst.append(cb)
            else:
                j.set_breakpoint(addr, self.callbacks[cb])
                self.bp_model[addr] = [cb]
            self.events.append((self.cur_tick, self.cp, k, addr, cb, standing))
            self.probe("debugger_" + k)
            if addr in j.jit.blocks_mem_interval if hasattr(j.jit, "blocks_mem_interval") else False:
                self.probe("bp_inside_translated_block")
            self.log.add(" act", k, hex(addr), cb)
        elif k == "bp_rm_addr":
            live = sorted(self.bp_model)
            if not live:
                return False
            addr = live[a[2] % len(live)]
            j.remove_breakpoints_by_address(addr)
            del self.bp_model[addr]
            self.events.append((self.cur_tick, self.cp, k, addr, None, addr == j.pc))
            self.probe("debugger_remove_by_address")
            if kind.startswith("bp"):
                self.probe("bp_removed_from_inside_callback")
            self.log.add(" act", k, hex(addr))
        elif k == "bp_rm_cb":
            cb = a[2] % 3
            if not any(cb in v for v in self.bp_model.values()):
                return False
            j.remove_breakpoints_by_callback(self.callbacks[cb])
            standing = j.pc in self.bp_model and cb in self.bp_model[j.pc]
            for addr in list(self.bp_model):
                if cb in self.bp_model[addr]:
                    self.bp_model[addr].remove(cb)
                    if not self.bp_model[addr]:
                        del self.bp_model[addr]
            self.events.append((self.cur_tick, self.cp, k, None, cb, standing))
            self.probe("debugger_remove_by_callback")
            if kind.startswith("bp"):
                self.probe("bp_removed_from_inside_callback")
            self.log.add(" act", k, cb)
        elif k == "hw":
            # host write: ["hw", target, offset, bytes]
            if a[2] == "reload":
                # the host rewrites the whole code page (as a loader re-mapping an image would), one
                # immediate byte of one cell differing: a single write that covers all translated code
                cells = sorted(v for n, v in self.prog.labels.items() if n.startswith("cell"))
                if not cells:
                    return False
                size = len(self.prog.code) + 32
                page = bytearray(j.vm.get_mem(CODE, size))
                off = cells[a[3] % len(cells)] + 1 + (a[3] // 7) % 4 - CODE
                page[off] = a[4][0]
                j.vm.set_mem(CODE, bytes(page))
                self.stamps.append((self.cur_digest, CODE, bytes(page)))
                self.probe("host_write_reload")
                self.log.add(" act hw reload", hex(CODE + off), "%02x" % a[4][0])
                return False
            if a[2] == "data":
                addr = D0 + 0x300 + (a[3] % 0x40)
            elif a[2] == "tail":
                # the last byte in front of the end address: the last byte of the last translated range
                if "cell8" not in self.prog.labels:
                    return False
                addr = self.prog.end - 1
            else:
                cells = sorted(v for n, v in self.prog.labels.items() if n.startswith("cell"))
                if cells:
                    addr = cells[a[3] % len(cells)] + 1 + (a[3] // 7) % 4
                else:
                    ia, il = self.prog.instrs[a[3] % len(self.prog.instrs)]
                    return False
            data = bytes(a[4])
            if any(addr <= h < addr + len(data) or h <= addr < h + len(hd[0]) for h, hd in self.held.items()):
                return False
            j.vm.set_mem(addr, data)
            # every write of one control point is stamped with the state the guest stood in
            self.stamps.append((self.cur_digest, addr, data))
            self.probe("host_write_" + a[2])
            self.log.add(" act hw", hex(addr), data.hex())
        elif k == "unmap":
            page = [D0, D1, RO, STACK_BASE, STACK_LOW][a[2] % 5]
            if page in self.held:
                return False
            mem = j.vm.get_all_memory()
            if page not in mem:
                return False
            self.held[page] = (mem[page]["data"], mem[page]["access"])
            j.vm.remove_memory_page(page)
            self.probe("fault_injected_unmap")
            self.log.add(" act unmap", hex(page))
        elif k == "perm":
            page = [D0, D1, STACK_BASE, STACK_LOW][a[2] % 4]
            if page in self.held or page in self.perm:
                return False
            self.perm[page] = j.vm.get_mem_access(page)
            self.j_perm[page] = [0, c.PAGE_READ, c.PAGE_WRITE][a[3] % 3]
            j.vm.set_mem_access(page, self.j_perm[page])
            self.probe("fault_injected_perm")
            self.log.add(" act perm", hex(page), a[3] % 3)
        elif k == "mbp":
            # memory breakpoint: ["mbp", where, size, access(1 read, 2 write, 3 both)]
            spots = [D0, D0 + 0x8, D0 + 0x21, D0 + 0x40, D1 + 0x4, D1 - 1, D1 + 0x7c, D0 + 0x200, STACK_BASE + STACK_SIZE - 8,
                     D0 + 0x100, D0 + 0x4, D1 + 0x10, D0 + 0x20]
            addr = spots[a[2] % len(spots)]
            size = [1, 2, 4, 8][a[3] % 4]
            access = [1, 2, 3][a[4] % 3]
            j.vm.add_memory_breakpoint(addr, size, access)
            self.mbps.append((addr, size, access))
            self.events.append((self.cur_tick, self.cp, "mbp_add", addr, size, access))
            self.probe("memory_breakpoint_added")
            self.log.add(" act mbp", hex(addr), size, access)
        elif k == "mbp_rm":
            if not self.mbps:
                return False
            addr, size, access = self.mbps.pop(a[2] % len(self.mbps))
            j.vm.remove_memory_breakpoint(addr, access)
            # remove_memory_breakpoint drops every watch with that address and access
            self.mbps = [m for m in self.mbps if not (m[0] == addr and m[2] == access)]
            self.events.append((self.cur_tick, self.cp, "mbp_rm", addr, size, access))
            self.probe("memory_breakpoint_removed")
            self.log.add(" act mbp_rm", hex(addr), access)
        elif k == "restart":
            self.want_restart = a[2]
            self.probe("restart_requested")
            return True
        return False

    def heal(self, j):
        c = self.e.csts
        for page, (data, access) in list(self.held.items()):
            j.vm.add_memory_page(page, access, data, "healed")
        self.held.clear()
        for page, access in list(self.perm.items()):
            j.vm.set_mem_access(page, access)
        self.perm.clear()

    # -- callbacks ---------------------------------------------------------------
    def _make_cb(self, k):
        def cb(jitter):
            idx = len(self.events)
            self.events.append((None, self.cp + 1, "hit", jitter.pc, k, None))
            my_cp = self.cp + 1
            stop = self.control_point("bp%d" % k, jitter)
            self.events[idx] = (self.cur_tick, my_cp, "hit", jitter.pc, k, stop)
            self.probe("bp_hit")
            if stop:
                self.probe("bp_callback_stops_run")
                self.stop_expected_pc = jitter.pc
                return False
            return True
        cb.__name__ = "cb%d" % k
        return cb

    def exec_cb(self, jitter):
        self.last_exec_pc = jitter.pc
        if self.control_point("exec", jitter):
            self.stop_expected_pc = jitter.pc
            return False
        return True

    def end_cb(self, jitter):
        self.ended = True
        return False

    def on_membp(self, jitter):
        """Exception handler for EXCEPT_BREAKPOINT_MEMORY: a control point of its own."""
        c = self.e.csts
        self.control_point("membp", jitter)
        self.events.append((self.cur_tick, self.cp, "mbp_hit", jitter.pc, None, None))
        self.probe("memory_breakpoint_hit")
        # clean-up idiom of miasm's own memory-breakpoint handlers (test/jitter/mem_breakpoint.py):
        # clear the flag and the access log, otherwise the logged access raises the breakpoint again
        jitter.vm.set_exception(jitter.vm.get_exception() & ~c.EXCEPT_BREAKPOINT_MEMORY)
        jitter.vm.reset_memory_access()
        return True

    def _make_soft(self, kind):
        def on_soft(jitter):
            """Handler of a software exception: a control point; it must be invoked exactly at the
            states at which the reference's handler was."""
            self.control_point("exc", jitter)
            k = self.exc_count
            self.exc_count += 1
            self.probe("soft_exception_" + kind.lower())
            if self.ref is not None:
                want = self.ref.exc_log[k] if k < len(self.ref.exc_log) else None
                if want != (self.cur_digest, kind):
                    raise Violation(self.pid + "/soft-exception-misplaced",
                                    "%s backend: handler invocation #%d (%s) at pc %#x (reference tick %s): the reference's invocation #%d is %s"
                                    % (self.backend, k + 1, kind, jitter.pc, self.cur_tick, k + 1,
                                       "absent" if want is None else "%s at another state (tick %s)" % (want[1], self.ref.index.get(want[0]))),
                                    {"backend": self.backend, "kind": kind, "maxline": self.cfg["knobs"].get("maxline")})
            soft_exception_effect(self.arch, jitter, kind)
            return True
        return on_soft

    def on_fault(self, jitter):
        """Exception handler for EXCEPT_ACCESS_VIOL: the fault stop."""
        c = self.e.csts
        self.fault_stops += 1
        self.probe("fault_stop")
        self.pending_fault = jitter.pc
        injected = bool(self.held or self.perm)
        facts = {"backend": self.backend, "injected": injected}
        if not injected:
            raise Violation(self.pid + "/spurious-fault", "%s backend: access violation at pc %#x with every page mapped and permitted"
                            % (self.backend, jitter.pc), facts)
        # (a)+(c): pc on the faulting instruction, none of its effects applied == state is a reference state
        self.control_point("fault", jitter)
        if self.ref is not None and self.ref.pcs[self.cur_tick] != jitter.pc:
            raise Violation(self.pid + "/wrong-pc", "fault stop reports pc %#x, reference tick %d is at %#x"
                            % (jitter.pc, self.cur_tick, self.ref.pcs[self.cur_tick]), facts)
        self.pending_fault = None
        text = self.prog.text_at.get(jitter.pc, "")
        if "0x500ff" in text:
            self.probe("fault_on_straddling_access")
        if text.startswith(("PUSHAD", "POPAD")):
            self.probe("fault_kind_multi_store")
        if text.startswith(("PUSH", "POP", "CALL", "RET")):
            self.probe("fault_kind_stack")
        elif "PTR [" in text and text.split(",")[0].find("PTR [") >= 0:
            self.probe("fault_kind_rmw" if not text.startswith("MOV") else "fault_kind_store")
        elif "PTR [" in text:
            self.probe("fault_kind_load")
        self.probe("fault_at_block_start" if jitter.pc == self.last_exec_pc else "fault_inside_block")
        if self.cfg.get("heal", True):
            jitter.vm.set_exception(0)
            self.heal(jitter)
            self.probe("fault_healed")
            self.log.add(" heal")
            return True
        self.probe("fault_left")
        self.terminal_fault = True
        return False

    # -- driver ------------------------------------------------------------------
    def setup_jitter(self, j):
        c = self.e.csts
        j.exec_cb = self.exec_cb
        j.add_breakpoint(self.prog.end, self.end_cb)
        j.add_exception_handler(c.EXCEPT_ACCESS_VIOL, self.on_fault)
        j.add_exception_handler(c.EXCEPT_BREAKPOINT_MEMORY, self.on_membp)
        for kind in SOFT_EXC_KINDS:
            j.add_exception_handler(getattr(c, "EXCEPT_" + kind), self._make_soft(kind))
        for addr, size, access in self.mbps:
            j.vm.add_memory_breakpoint(addr, size, access)
        for addr, cbs in self.bp_model.items():
            for cb in cbs:
                j.add_breakpoint(addr, self.callbacks[cb])

    def run(self):
        e = self.e
        cfg = self.cfg
        self.terminal_fault = False
        self.want_restart = None
        self.stop_expected_pc = None
        if self.backend == "gcc" and cfg["knobs"].get("twin") and self.arch in TWIN_FLAVOUR:
            self.twin_prerun()
        j = make_jitter(self.arch, self.backend, self.prog, cfg["init_regs"], cfg["knobs"])
        self.j = j
        if cfg["knobs"].get("warm"):
            # the same Jitter already ran the program once (warm translation cache)
            def fin(jitter):
                return False
            j.add_breakpoint(self.prog.end, fin)
            warm_handlers = []
            for kind in SOFT_EXC_KINDS:
                def on_warm(jitter, kind=kind):
                    soft_exception_effect(self.arch, jitter, kind)
                    return True
                warm_handlers.append(on_warm)
                j.add_exception_handler(getattr(e.csts, "EXCEPT_" + kind), on_warm)
            # the earlier run started from other scratch-register values: what it translated (and patched, in a
            # self-modifying program) is not what this run is going to see
            for name, val in perturbed(self.arch, cfg["init_regs"]).items():
                setattr(j.cpu, name, val)
            j.init_run(self.prog.entry)
            try:
                j.continue_run()
            except Exception as exc:
                raise Discard("earlier run of the warm start failed: %s" % type(exc).__name__)
            j.remove_breakpoints_by_callback(fin)
            for h in warm_handlers:
                j.exceptions_handler.remove_callback(h)
            # The host restores the initial state through the memory API, writing the bytes that differ, either
            # before or after it installs its breakpoints; the translated blocks are kept.  The jitter learns of
            # writes into translated code the way it always does (EXCEPT_CODE_AUTOMOD raised by vm.set_mem,
            # served by its own handler).
            first = (cfg["knobs"].get("cache_limit", 0) + cfg["knobs"].get("maxline", 0)) % 2 == 0
            if first:
                self.setup_jitter(j)
            fresh = make_jitter(self.arch, "python", self.prog, cfg["init_regs"], {})
            if cfg["knobs"].get("carry"):
                # the next run starts from the memory the earlier one left behind (code it patched included): only
                # the registers are set again, the host writes nothing
                set_regs(j, fresh.cpu.get_gpreg())
                self.probe("warm_start")
                self.probe("warm_carry")
                if not first:
                    self.setup_jitter(j)
                return self._drive(j)
            mem = fresh.vm.get_all_memory()
            now = j.vm.get_all_memory()
            for a in mem:
                want, have = mem[a]["data"], now[a]["data"]
                i = 0
                while i < len(want):
                    if want[i] == have[i]:
                        i += 1
                        continue
                    k = i
                    while k < len(want) and want[k] != have[k]:
                        k += 1
                    j.vm.set_mem(a + i, want[i:k])
                    if a == CODE:
                        self.probe("warm_restore_code_bytes", k - i)
                    i = k
            set_regs(j, fresh.cpu.get_gpreg())
            for _ in j.exceptions_handler(j.get_exception(), j):
                pass
            j.vm.reset_memory_access()
            self.probe("warm_start")
            if not first:
                self.setup_jitter(j)
        else:
            self.setup_jitter(j)
        return self._drive(j)

    def twin_prerun(self):
        """An earlier user of the on-disk block cache: another flavour of the same architecture family (other
        mode or byte order) translates the first block found at the same address in the same bytes.  The cache
        directory is shared by every jitter of the process tree, as $TMPDIR/miasm_cache is on a real host."""
        try:
            tj = make_jitter(TWIN_FLAVOUR[self.arch], "gcc", self.prog, {}, {"maxline": self.cfg["knobs"].get("maxline", 50), "quantum": 1})
            calls = [0]

            def one_block(jitter):
                calls[0] += 1
                return calls[0] <= 1
            tj.exec_cb = one_block
            tj.init_run(self.prog.entry)
            tj.continue_run()
        except Discard:
            raise
        except Exception:
            pass
        self.probe("twin_flavour_prerun")

    def _drive(self, j):
        e = self.e
        cfg = self.cfg
        j.init_run(self.prog.entry)
        guard = 0
        while True:
            guard += 1
            if guard > CP_CAP:
                raise Violation(self.pid + "/no-progress", "run does not end", {"kind": "loop"})
            try:
                j.continue_run()
            except e.JitterException as exc:
                if self.terminal_fault:
                    break
                raise Violation(self.pid + "/host-exception", "%s backend: JitterException %s escaped at pc %#x"
                                % (self.backend, exc, j.pc), {"backend": self.backend, "exc": "JitterException"})
            except Violation:
                raise
            except (Discard, HarnessError):
                raise
            except Exception as exc:
                raise Violation(self.pid + "/host-exception", "%s backend: %s escaped run() at pc %#x: %s"
                                % (self.backend, type(exc).__name__, j.pc, str(exc)[:120]),
                                {"backend": self.backend, "exc": type(exc).__name__,
                                 "fault_injected": bool(self.held or self.perm)})
            if self.ended or self.terminal_fault:
                break
            # a stop requested by a callback: pc must be where the callback stood
            self.probe("stop_resume")
            if self.stop_expected_pc is not None and j.pc != self.stop_expected_pc:
                raise Violation(self.pid + "/stop-pc", "run stopped by a callback at %#x but jitter.pc is %#x"
                                % (self.stop_expected_pc, j.pc), {"backend": self.backend})
            self.stop_expected_pc = None
            if self.control_point("stopped", j):
                pass
            if self.want_restart:
                j = self.restart(j, self.want_restart)
                self.want_restart = None
        self.final_digest = digest(j, self.pcregs, self.held)
        self.final_pc = j.pc
        self.j = j
        return j

    def restart(self, j, mode):
        """Crash/restart: only registers and memory survive."""
        regs = j.cpu.get_gpreg()
        mem = j.vm.get_all_memory()
        pc = j.pc
        if mode == "warm":
            for a in mem:
                j.vm.set_mem(a, mem[a]["data"])
            set_regs(j, regs)
            self.probe("restart_warm")
            j.init_run(pc)
            return j
        knobs = dict(self.cfg["knobs"])
        knobs.pop("warm", None)
        nj = make_jitter(self.arch, self.backend, self.prog, {}, knobs)
        have = nj.vm.get_all_memory()
        for a in list(have):
            if a not in mem:
                nj.vm.remove_memory_page(a)
        for a in mem:
            if a in have:
                nj.vm.set_mem(a, mem[a]["data"])
                nj.vm.set_mem_access(a, mem[a]["access"])
            else:
                nj.vm.add_memory_page(a, mem[a]["access"], mem[a]["data"], "restored")
        set_regs(nj, regs)
        nj.vm.set_exception(0)
        nj.vm.reset_memory_access()
        self.setup_jitter(nj)
        self.probe("restart_cold")
        nj.init_run(pc)
        return nj


# ---------------------------------------------------------------------------
# oracles over the recorded history

def expected_breakpoint_hits(ref, events, end_addr):
    """Walk the reference pc sequence replaying the debugger's actions at
    their ticks.  Returns (ok, message).  events: (tick, cp, kind, addr, cb, flag)."""
    # order events by control point
    evs = sorted(events, key=lambda x: x[1])
    active = {}
    hits = [ev for ev in evs if ev[2] == "hit"]
    acts = [ev for ev in evs if ev[2] != "hit"]
    # Build expectation tick by tick.  An action at tick t happens while the guest stands at
    # pc_t, *before* that instruction executes; arrivals at pc_t itself are ambiguous for it.
    acts_by_tick = {}
    for ev in acts:
        acts_by_tick.setdefault(ev[0], []).append(ev)
    hit_i = 0
    for t in range(ref.ticks):
        pc = ref.pcs[t]
        # hits observed at this tick
        here = []
        while hit_i < len(hits) and hits[hit_i][0] == t:
            here.append(hits[hit_i])
            hit_i += 1
        before = dict((a, list(v)) for a, v in active.items())
        touched = False
        seen_here = set(before.get(pc, []))
        for ev in acts_by_tick.get(t, ()):
            kind, addr, cb = ev[2], ev[3], ev[4]
            if kind == "bp_add":
                lst = active.setdefault(addr, [])
                if cb not in lst:
                    lst.append(cb)
            elif kind == "bp_set":
                active[addr] = [cb]
            elif kind == "bp_rm_addr":
                active.pop(addr, None)
            elif kind == "bp_rm_cb":
                for a in list(active):
                    if cb in active[a]:
                        active[a].remove(cb)
                        if not active[a]:
                            del active[a]
            if addr == pc or (kind == "bp_rm_cb" and cb in seen_here):
                touched = True
            seen_here |= set(active.get(pc, []))
        got = [h[4] for h in here]
        for h in here:
            if h[3] != pc:
                return False, "extra-hit", "callback %d invoked with pc %#x at tick %d where the guest is at %#x" % (h[4], h[3], t, pc)
        if touched:
            # registered/removed while standing on the address: either outcome accepted for this arrival
            allowed = seen_here
            if any(g not in allowed for g in got):
                return False, "extra-hit", "tick %d at %#x: callbacks %s invoked, registered there: %s" % (t, pc, got, sorted(allowed))
            continue
        want = before.get(pc, [])
        if got != want:
            if len(got) < len(want) or any(w not in got for w in want):
                cls = "missing-hit"
            else:
                cls = "extra-hit"
            # a callback that stopped the run is re-invoked? (callbacks after a stop are skipped)
            return False, cls, "tick %d: guest reaches %#x, registered callbacks %s, invoked %s" % (t, pc, want, got)
        # a callback returning non-True stops the run: later callbacks of the same arrival still run
    if hit_i != len(hits):
        h = hits[hit_i]
        return False, "extra-hit", "callback %d invoked at pc %#x (tick %s) outside any arrival" % (h[4], h[3], h[0])
    return True, None, None


def expected_memory_breakpoints(ref, events):
    """Memory-breakpoint hits expected from the reference access log.  A watch registered at tick t is in
    force for the instruction of tick t; an instruction that touches a watched byte with a watched kind of
    access raises the breakpoint once it has retired, i.e. the run stops in the reference state of tick t+1.
    Returns (ok, class, message)."""
    evs = sorted(events, key=lambda x: x[1])
    acts = {}
    for ev in evs:
        if ev[2] in ("mbp_add", "mbp_rm"):
            acts.setdefault(ev[0], []).append(ev)
    hits = [ev[0] for ev in evs if ev[2] == "mbp_hit"]
    active = []
    expected = []
    fuzzy = set()          # ticks at which a watch was (un)registered: a pending hit may be raised right there
    for t in range(ref.ticks):
        for ev in acts.get(t, ()):
            fuzzy.add(t)
            fuzzy.add(t + 1)
            if ev[2] == "mbp_add":
                active.append((ev[3], ev[4], ev[5]))
            else:
                active = [m for m in active if not (m[0] == ev[3] and m[2] == ev[5])]
        if t >= len(ref.acc):
            break
        hit = False
        for kind, addr, size in ref.acc[t]:
            for waddr, wsize, wacc in active:
                if (wacc & (1 if kind == "r" else 2)) and addr < waddr + wsize and waddr < addr + size:
                    hit = True
        if hit:
            expected.append(t + 1)
    exp = [t for t in expected if t not in fuzzy]
    got = [t for t in hits if t not in fuzzy]
    # several accesses of one instruction raise one hit; a hit is reported once per tick
    got_set, exp_set = sorted(set(got)), sorted(set(exp))
    if got_set != exp_set:
        missing = [t for t in exp_set if t not in got_set]
        extra = [t for t in got_set if t not in exp_set]
        if missing:
            t = missing[0]
            return False, "membp-missing", "the instruction at %#x (tick %d) accesses a watched range but no memory breakpoint was raised after it" % (ref.pcs[t - 1], t - 1)
        t = extra[0]
        return False, "membp-extra", "memory breakpoint raised at tick %d (pc %#x) although the previous instruction touches no watched byte" % (t, ref.pcs[t] if t < len(ref.pcs) else 0)
    return True, None, None
