"""Simulator B: a seeded operation history applied to the real object and to
a reference model, with an invariant after every step."""
from simkit.core import Machine, EventLog, Violation


class World(object):
    def __init__(self):
        self.probes = {}
        self.ops = 0
        self.nontrivial = False

    def probe(self, name, n=1):
        self.probes[name] = self.probes.get(name, 0) + n


class OpMachine(Machine):
    chunk = 100
    min_nontrivial_ops = 3

    def make_world(self, cfg, log):
        raise NotImplementedError

    def apply(self, world, action, log):
        """Apply one action to real object and model, compare."""
        raise NotImplementedError

    def invariant(self, world, log):
        pass

    def finish(self, world, log):
        pass

    def run(self, case, keep_log=False):
        log = EventLog(keep_log)
        viol = None
        world = None
        step = -1
        try:
            world = self.make_world(case["cfg"], log)
            for step, action in enumerate(case["actions"]):
                world.ops += 1
                self.apply(world, action, log)
                self.invariant(world, log)
            step = None
            self.finish(world, log)
        except Violation as v:
            viol = v.as_dict(step)
            log.add("VIOLATION", v.cls, v.detail)
        finally:
            if world is not None:
                self.teardown(world)
        res = {"viol": viol, "digest": log.digest(),
               "ops": world.ops if world else 0,
               "probes": world.probes if world else {},
               "nontrivial": bool(world and world.ops >= self.min_nontrivial_ops)}
        if keep_log:
            res["log"] = log.lines
        return res

    def teardown(self, world):
        pass
