"""C30 — AsmCFG mutation histories against a constraint-set model.

Model: the set of present blocks and, per block, its set of (destination,
kind) constraints.  After every step:
  edges()   == {(src, dst) | src present, (dst, .) in src.bto, dst present}
  edges2constraint[(src,dst)] == that constraint's kind
  pendings  == {dst -> {(waiter, kind)}} for the absent destinations of
               present blocks (and nothing else)
  block.bto == the model's constraint set (operations change exactly the
               constraints they document)
A raw mutation of block.bto suspends the check until rebuild_edges()
(documented contract).

Domain (assumptions, see DESIGN.md): add_edge/del_edge are issued between
present blocks; two constraints of one block to the same destination have the
same kind (mixed kinds make add_block assert by design).
"""
from simkit.core import Violation
from simkit.opmachine import OpMachine, World

KINDS = ["c_next", "c_to"]


class C30(OpMachine):
    pid = "C30"
    title = "AsmCFG edges mirror block constraints"
    rule = ("seeded histories (1-30 ops) of add_block/del_block/add_edge/del_edge/merge/raw bto mutation + rebuild_edges "
            "over 3-6 LocKeys, 1-2 block objects per LocKey, seeded constraint sets with self-loops and duplicate "
            "constraints; non-trivial = >=3 ops; distinct = distinct event-log digest")
    real_components = ["miasm.core.asmblock.AsmCFG / AsmBlock / AsmConstraint", "miasm.core.graph.DiGraph",
                       "miasm.core.locationdb.LocationDB"]
    stub_components = ["reference model: present blocks + per-block constraint sets"]
    assumptions = ["add_edge/del_edge only between present blocks",
                   "duplicate constraints to one destination share one kind",
                   "an operation that raises (assert on duplicates, missing block) must still leave edges mirroring constraints"]
    quick_runs = 30000
    thorough_runs = 400000
    chunk = 500
    expected_probes = ["add_block", "add_block_same_loc_ignored", "pending_created", "pending_resolved",
                       "del_block", "del_block_with_pendings", "del_block_pred", "self_loop", "dup_constraint",
                       "add_edge", "add_edge_kind_conflict", "del_edge", "merge", "merge_collision",
                       "merge_conflict", "raw_mutation", "raw_clear", "rebuild", "op_raised"]

    def setup(self):
        from miasm.core.asmblock import AsmCFG, AsmBlock, AsmConstraint
        from miasm.core.locationdb import LocationDB
        self.AsmCFG, self.AsmBlock, self.AsmConstraint, self.LocationDB = AsmCFG, AsmBlock, AsmConstraint, LocationDB

    # ---- generation -------------------------------------------------------
    def _gen_blocks(self, rng, nloc, nblocks):
        blocks = []
        for _ in range(nblocks):
            loc = rng.randrange(nloc)
            cons = []
            for _ in range(rng.choice([0, 1, 1, 2, 2, 3])):
                dst = rng.choice([rng.randrange(nloc), rng.randrange(nloc), loc])
                prev = [k for d, k in cons if d == dst]
                kind = prev[0] if prev else rng.randrange(2)
                cons.append([dst, kind])   # duplicates allowed, same kind
            blocks.append([loc, cons])
        return blocks

    def gen(self, rng, steer):
        nloc = rng.randint(3, 6)
        blocks = self._gen_blocks(rng, nloc, rng.randint(nloc, 2 * nloc))
        other_blocks = self._gen_blocks(rng, nloc, rng.randint(0, nloc))
        other_ops = [["add_block", rng.randrange(8)] for _ in range(len(other_blocks) + 1)]
        if rng.random() < 0.3 and other_blocks:
            other_ops.append(["del_block", rng.randrange(8)])
        cfg = {"nloc": nloc, "blocks": blocks, "other_blocks": other_blocks, "other_ops": other_ops}
        kinds = (["add_block"] * 6 + ["del_block"] * 3 + ["add_edge"] * 3 + ["del_edge"] * 2 +
                 ["merge"] * 1 + ["mut"] * rng.choice([0, 2]) + ["rebuild"] * 1)
        actions = []
        for _ in range(rng.randint(1, 30)):
            k = rng.choice(kinds)
            if k in ("add_block", "del_block"):
                actions.append([k, rng.randrange(16)])
            elif k == "add_edge":
                actions.append([k, rng.randrange(8), rng.randrange(8), rng.randrange(2)])
            elif k == "del_edge":
                actions.append([k, rng.randrange(8), rng.randrange(8)])
            elif k == "mut":
                actions.append([k, rng.randrange(8), rng.choice(["add", "del", "flip", "clear"]), rng.randrange(nloc), rng.randrange(2)])
            else:
                actions.append([k])
        return {"cfg": cfg, "actions": actions}

    def simplify_action(self, a):
        for i in range(1, len(a)):
            if isinstance(a[i], int) and a[i] > 0:
                yield a[:i] + [0] + a[i + 1:]

    def simplify_cfg(self, cfg):
        for key in ("other_ops", "other_blocks"):
            if cfg[key]:
                yield dict(cfg, **{key: cfg[key][:-1]})
        for i, (loc, cons) in enumerate(cfg["blocks"]):
            for j in range(len(cons)):
                nb = [list(b) for b in cfg["blocks"]]
                nb[i] = [loc, cons[:j] + cons[j + 1:]]
                yield dict(cfg, blocks=nb)

    # ---- world --------------------------------------------------------------
    class G(object):
        pass

    def _mk_graph(self, w, blocks_desc):
        g = self.G()
        g.cfg = self.AsmCFG(w.loc_db)
        g.pool = []
        for loc, cons in blocks_desc:
            b = self.AsmBlock(w.loc_db, w.locs[loc])
            for dst, kind in cons:
                b.bto.add(self.AsmConstraint(w.locs[dst], KINDS[kind]))
            g.pool.append(b)
        g.present = {}     # LocKey -> block object
        g.bto = {}         # id(block) -> set((dst LocKey, kind))   model
        for b in g.pool:
            g.bto[id(b)] = set((c.loc_key, c.c_t) for c in b.bto)
        g.dirty = False
        return g

    def make_world(self, cfg, log):
        w = World()
        w.loc_db = self.LocationDB()
        w.locs = [w.loc_db.add_location() for _ in range(cfg["nloc"])]
        w.g = self._mk_graph(w, cfg["blocks"])
        w.o = self._mk_graph(w, cfg["other_blocks"])
        for a in cfg["other_ops"]:
            if w.o.pool:
                self._apply(w, w.o, a, log, "other")
                self._check(w, w.o, {"op": a[0], "graph": "other"})
        return w

    def apply(self, w, a, log):
        self._apply(w, w.g, a, log, "main")

    def invariant(self, w, log):
        self._check(w, w.g, w.last_facts)

    def _present_block(self, g, idx):
        keys = sorted(g.present, key=lambda l: l.key)
        if not keys:
            return None
        return g.present[keys[idx % len(keys)]]

    def _apply(self, w, g, a, log, tag):
        k = a[0]
        facts = {"op": k}
        w.last_facts = facts
        cfgr = g.cfg
        if g.dirty and k not in ("mut", "rebuild"):
            # contract: resynchronise before using the graph again
            cfgr.rebuild_edges()
            g.dirty = False
            log.add(tag, "implicit rebuild")
        exc = None
        note = ""
        try:
            if k == "add_block":
                if not g.pool:
                    return
                b = g.pool[a[1] % len(g.pool)]
                lk = b.loc_key
                ignored = lk in g.present
                pend_for = lk in cfgr.pendings
                will_pend = any(d not in g.present and d != lk for d, _ in g.bto[id(b)])
                cfgr.add_block(b)
                if ignored:
                    w.probe("add_block_same_loc_ignored")
                else:
                    w.probe("add_block")
                    g.present[lk] = b
                    if pend_for:
                        w.probe("pending_resolved")
                    if will_pend:
                        w.probe("pending_created")
                    if any(d == lk for d, _ in g.bto[id(b)]):
                        w.probe("self_loop")
                    if len(g.bto[id(b)]) < len(b.bto):
                        w.probe("dup_constraint")
                note = "ignored" if ignored else "added"
            elif k == "del_block":
                if not g.pool:
                    return
                b = g.pool[a[1] % len(g.pool)]
                lk = b.loc_key
                victim = g.present.get(lk)
                facts["present"] = victim is not None
                if victim is not None:
                    facts["victim_waits"] = any(d not in g.present for d, _ in g.bto[id(victim)])
                    facts["has_pred"] = any(lk in [d for d, _ in g.bto[id(p)]] for p in g.present.values() if p is not victim)
                cfgr.del_block(b)
                if victim is None:
                    raise Violation("C30/accepted-absent-block", "del_block of an absent block returned normally", facts)
                w.probe("del_block")
                if facts["victim_waits"]:
                    w.probe("del_block_with_pendings")
                if facts["has_pred"]:
                    w.probe("del_block_pred")
                del g.present[lk]
                for p in g.present.values():
                    g.bto[id(p)] = set((d, kk) for d, kk in g.bto[id(p)] if d != lk)
                # the deleted block's own constraints to present blocks are dropped with its edges
                g.bto[id(victim)] = set((c.loc_key, c.c_t) for c in victim.bto)
            elif k == "add_edge":
                s, d = self._present_block(g, a[1]), self._present_block(g, a[2])
                if s is None:
                    return
                kind = KINDS[a[3]]
                old = [kk for dd, kk in g.bto[id(s)] if dd == d.loc_key]
                facts["kind_conflict"] = bool(old) and old[0] != kind
                if facts["kind_conflict"]:
                    w.probe("add_edge_kind_conflict")
                cfgr.add_edge(s.loc_key, d.loc_key, kind)
                w.probe("add_edge")
                if facts["kind_conflict"]:
                    raise Violation("C30/edge-kind", "add_edge %s->%s as %s accepted over existing kind %s"
                                    % (s.loc_key, d.loc_key, kind, old[0]), facts)
                if not old:
                    g.bto[id(s)].add((d.loc_key, kind))
            elif k == "del_edge":
                s, d = self._present_block(g, a[1]), self._present_block(g, a[2])
                if s is None:
                    return
                had = any(dd == d.loc_key for dd, _ in g.bto[id(s)])
                facts["had_edge"] = had
                cfgr.del_edge(s.loc_key, d.loc_key)
                if not had:
                    raise Violation("C30/accepted-absent-edge", "del_edge of a missing edge returned normally", facts)
                w.probe("del_edge")
                g.bto[id(s)] = set((dd, kk) for dd, kk in g.bto[id(s)] if dd != d.loc_key)
            elif k == "merge":
                if g is not w.g or getattr(w, "merged", False):
                    return      # the other graph shares its blocks after a merge: merged once
                w.merged = True
                return self._merge(w, log, facts)
            elif k == "mut":
                b = self._present_block(g, a[1])
                if b is None:
                    return
                dst = w.locs[a[3] % len(w.locs)]
                cur = [c for c in b.bto if c.loc_key == dst]
                if a[2] == "add":
                    kind = cur[0].c_t if cur else KINDS[a[4]]
                    b.bto.add(self.AsmConstraint(dst, kind))
                elif a[2] == "del":
                    for c in cur:
                        b.bto.discard(c)
                elif a[2] == "clear":
                    # several constraints vanish at once (all of them, or all but those to dst):
                    # rebuild_edges() then has neighbouring stale edges to remove in one pass
                    for c in list(b.bto):
                        if a[4] == 0 or c.loc_key != dst:
                            b.bto.discard(c)
                    w.probe("raw_clear")
                elif cur:
                    newk = KINDS[1 - KINDS.index(cur[0].c_t)]
                    for c in cur:
                        b.bto.discard(c)
                    b.bto.add(self.AsmConstraint(dst, newk))
                g.bto[id(b)] = set((c.loc_key, c.c_t) for c in b.bto)
                g.dirty = True
                w.probe("raw_mutation")
            elif k == "rebuild":
                cfgr.rebuild_edges()
                g.dirty = False
                w.probe("rebuild")
        except Violation:
            raise
        except (AssertionError, KeyError, ValueError) as e:
            exc = type(e).__name__
            w.probe("op_raised")
            # a refused operation: resynchronise the model's view of bto and presence
            self._resync(g)
        log.add(tag, k, a[1:], note, exc)

    def _resync(self, g):
        present = {}
        for b in g.cfg.blocks:
            present[b.loc_key] = b
        g.present = present
        for b in list(present.values()) + g.pool:
            g.bto[id(b)] = set((c.loc_key, c.c_t) for c in b.bto)

    def _merge(self, w, log, facts):
        g, o = w.g, w.o
        conflict = False
        collisions = 0
        plan = []
        for lk, ob in o.present.items():
            if lk in g.present:
                collisions += 1
                sb = g.present[lk]
                for d, k2 in o.bto[id(ob)]:
                    if d not in o.present:
                        continue          # not an edge of the other graph
                    mine = [k1 for dd, k1 in g.bto[id(sb)] if dd == d]
                    if mine and mine[0] != k2:
                        conflict = True
                    elif not mine:
                        plan.append((sb, d, k2))
        facts["conflict"] = conflict
        facts["collisions"] = collisions
        exc = None
        try:
            g.cfg.merge(o.cfg)
        except AssertionError as e:
            exc = "AssertionError"
        log.add("main merge collisions=%d conflict=%s" % (collisions, conflict), exc)
        w.probe("merge")
        if collisions:
            w.probe("merge_collision")
        if conflict:
            w.probe("merge_conflict")
            for b in o.pool:
                g.bto[id(b)] = set((c.loc_key, c.c_t) for c in b.bto)
            self._resync(g)
            return
        if exc:
            raise Violation("C30/merge-fails", "merge of compatible graphs raised %s" % exc, facts)
        for lk, ob in o.present.items():
            if lk not in g.present:
                g.present[lk] = ob
                g.bto[id(ob)] = set(o.bto[id(ob)])
        for sb, d, k2 in plan:
            if not any(dd == d for dd, _ in g.bto[id(sb)]):
                g.bto[id(sb)].add((d, k2))
        for b in o.pool:
            if b not in g.pool:
                g.pool.append(b)
                g.bto.setdefault(id(b), set(o.bto[id(b)]))

    # ---- oracle ---------------------------------------------------------------
    def _check(self, w, g, facts):
        if g.dirty:
            return
        cfgr = g.cfg
        real_blocks = {}
        for b in cfgr.blocks:
            real_blocks[b.loc_key] = b
        if set(real_blocks) != set(g.present) or any(real_blocks[l] is not g.present[l] for l in g.present):
            raise Violation("C30/blocks-differ", "blocks %s, model %s"
                            % (sorted(l.key for l in real_blocks), sorted(l.key for l in g.present)), facts)
        exp_edges = {}
        exp_pend = {}
        for lk, b in g.present.items():
            real_bto = set((c.loc_key, c.c_t) for c in b.bto)
            if real_bto != g.bto[id(b)]:
                raise Violation("C30/constraints-changed", "bto of block %s is %s, model %s"
                                % (lk, sorted((d.key, k) for d, k in real_bto),
                                   sorted((d.key, k) for d, k in g.bto[id(b)])), facts)
            for d, kind in real_bto:
                if d in g.present:
                    exp_edges[(lk, d)] = kind
                else:
                    exp_pend.setdefault(d, set()).add((lk, kind))
        edges = list(cfgr.edges())
        if len(edges) != len(set(edges)):
            raise Violation("C30/edge-extra", "duplicate edges %s" % sorted((a.key, b.key) for a, b in edges), facts)
        for e in edges:
            if e not in exp_edges:
                src_present = e[0] in g.present
                facts2 = dict(facts, src_present=src_present, dst_present=e[1] in g.present)
                raise Violation("C30/edge-extra", "edge %s->%s without constraint (source block present: %s)"
                                % (e[0].key, e[1].key, src_present), facts2)
        for e, kind in exp_edges.items():
            if e not in edges:
                raise Violation("C30/edge-missing", "constraint %s->%s (%s) has no edge" % (e[0].key, e[1].key, kind), facts)
            if cfgr.edges2constraint.get(e) != kind:
                raise Violation("C30/edge-kind", "edge %s->%s labelled %s, constraint is %s"
                                % (e[0].key, e[1].key, cfgr.edges2constraint.get(e), kind), facts)
        if set(cfgr.edges2constraint) != set(exp_edges):
            raise Violation("C30/edge-extra", "edges2constraint lists %s, expected %s"
                            % (sorted((a.key, b.key) for a, b in cfgr.edges2constraint),
                               sorted((a.key, b.key) for a, b in exp_edges)), facts)
        for lk in g.present:
            succ = sorted(d.key for d in cfgr.successors(lk))
            want = sorted(d.key for (s, d) in exp_edges if s == lk)
            if succ != want:
                raise Violation("C30/edge-missing", "successors(%s) = %s, expected %s" % (lk.key, succ, want), facts)
        real_pend = {}
        for d, entries in cfgr.pendings.items():
            for p in entries:
                if g.present.get(p.waiter.loc_key) is not p.waiter:
                    facts2 = dict(facts, stale_waiter=True)
                    raise Violation("C30/pending-stale", "pending for %s names waiter %s which is not in the graph"
                                    % (d.key, p.waiter.loc_key.key), facts2)
                real_pend.setdefault(d, set()).add((p.waiter.loc_key, p.constraint))
        real_pend = {d: s for d, s in real_pend.items() if s}
        if real_pend != exp_pend:
            cls = "C30/pending-missing" if any(d not in real_pend or exp_pend[d] - real_pend[d] for d in exp_pend) else "C30/pending-stale"
            raise Violation(cls, "pendings %s, expected %s"
                            % (sorted((d.key, sorted((l.key, k) for l, k in s)) for d, s in real_pend.items()),
                               sorted((d.key, sorted((l.key, k) for l, k in s)) for d, s in exp_pend.items())), facts)


_M = C30()


def get_machine(pid):
    return _M
