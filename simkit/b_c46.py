"""C46 — the sandboxed file system under an adversary that rearranges the
symlink layout inside the sandbox between guest operations.

World: a private scratch tree  <scratch>/sb (the sandbox base, a few files and
directories), <scratch>/outside (canary files, also the process cwd).  The
`os` name of miasm.os_dep.linux.environment is replaced by a recording proxy
(seam, no source change): every host path handed to os.open, os.path.exists /
isdir / isfile / islink / getsize, os.listdir, os.readlink, os.stat is logged.

Actors: the guest issues resolve_path / open_ / exists / readlink / getattr_
(stat, lstat) through LinuxEnvironment / FileSystem with seeded path strings;
the adversary creates, retargets and removes symlinks and directories inside
the base; a third actor feeds path strings to the Windows / POSIX mappers.

Oracle: every host path that is returned or accessed, as the kernel resolves
it (realpath), lies under realpath(base) unless it matches a configured
passthrough entry; nothing read back through a returned descriptor contains
canary bytes; the mappers' results, normalised, lie under the base directory.
"""
import os
import shutil

from simkit.core import Violation
from simkit.opmachine import OpMachine, World

WIN_SCRATCH = 0x100000
WIN_COMPONENTS = ["..", "..", "a.txt", "d", "c:", "file_sb", "secret.txt", ".. ", "x", ".", "f.txt", "outside", "etc", "passwd"]
WIN_ACCESS = [0x80000000, 0xC0000000, 0x40000000, 1]
WIN_FOPEN_MODES = ["r", "rb", "wb+", "wb", "wt"]
COMPONENTS = ["a.txt", "d", "f.txt", "l", "dl", "..", "..", ".", "", "x", "etc", ".. ", "...", " .."]


class OsPathProxy(object):
    def __init__(self, rec):
        self._rec = rec

    def __getattr__(self, name):
        real = getattr(os.path, name)
        if name in ("exists", "isdir", "isfile", "getsize"):
            def follow(p, *a):
                self._rec.append(("follow", "os.path." + name, p))
                return real(p, *a)
            return follow
        if name in ("islink", "lexists"):
            def nofollow(p, *a):
                self._rec.append(("nofollow", "os.path." + name, p))
                return real(p, *a)
            return nofollow
        return real


class OsProxy(object):
    def __init__(self, rec):
        self._rec = rec
        self.path = OsPathProxy(rec)

    def __getattr__(self, name):
        real = getattr(os, name)
        if name in ("open", "listdir", "stat", "access"):
            def follow(p, *a, **k):
                self._rec.append(("follow", "os." + name, p))
                return real(p, *a, **k)
            return follow
        if name in ("readlink", "lstat"):
            def nofollow(p, *a, **k):
                self._rec.append(("nofollow", "os." + name, p))
                return real(p, *a, **k)
            return nofollow
        return real


class C46(OpMachine):
    pid = "C46"
    title = "the sandboxed file system never escapes its base directory"
    rule = ("seeded histories (1-25 guest operations: resolve_path, open_, exists, readlink, stat, lstat; str and bytes paths; "
            "absolute/relative, '.', '..', repeated separators) interleaved with adversary moves (create / retarget / remove "
            "symlinks and directories inside the base: final-component and directory links, chains, relative targets with '..', "
            "absolute targets) and Windows/POSIX mapper calls; non-trivial = >=3 ops; distinct = distinct event-log digest")
    real_components = ["miasm.os_dep.linux.environment FileSystem / LinuxEnvironment_x86_64 (open_, stat, lstat, readlink ...)",
                       "miasm.os_dep.win_api_x86_32 kernel32_CreateFileA/W, GetFileSize, GetFileSizeEx, ReadFile, msvcrt fopen/_wfopen, shlwapi_PathIsDirectoryW (called with arguments on an x86_32 Jitter's stack)",
                       "miasm.os_dep.common windows_to_sbpath / unix_to_sbpath", "the host file system (a private scratch tree)"]
    stub_components = ["recording proxy for the `os` module as seen by environment.py (delegates to the real os)",
                       "adversary actor"]
    assumptions = ["guest-relative paths are relative to the guest root (the code joins them to the base directory)",
                   "a passthrough entry is honoured only for the exact configured path"]
    quick_runs = 4000
    thorough_runs = 80000
    chunk = 100
    expected_probes = ["resolve", "open", "exists", "readlink", "stat", "lstat", "adv_link_file", "adv_link_dir",
                       "adv_link_abs_outside", "adv_link_rel_dotdot", "adv_chain", "adv_long_chain", "adv_remove", "guest_dotdot",
                       "guest_bytes_path", "through_dir_link", "final_link", "passthrough_hit", "winpath", "unixpath",
                       "data_read_back", "win_CreateFileA", "win_CreateFileW", "win_fopen", "win__wfopen", "win_PathIsDirectoryW",
                       "win_handle_followup"]

    def setup(self):
        from simkit import build
        from miasm.os_dep.linux import environment
        from miasm.os_dep import common
        self.environment = environment
        self.common = common
        self.scratch_root = build.private_tmp()
        # one x86_32 jitter (python backend) carries the arguments of the emulated Windows API stubs
        build.activate()
        from miasm.analysis.machine import Machine
        from miasm.core.locationdb import LocationDB
        from miasm.jitter.csts import PAGE_READ, PAGE_WRITE
        from miasm.os_dep import win_api_x86_32
        self.winapi = win_api_x86_32
        j = Machine("x86_32").jitter(LocationDB(), "python")
        j.init_stack()
        j.vm.add_memory_page(WIN_SCRATCH, PAGE_READ | PAGE_WRITE, b"\x00" * 0x4000, "scratch")
        self.win_jitter = j
        self.win_esp = j.cpu.ESP

    # ---- generation -------------------------------------------------------------
    def _guest_path(self, rng, steer):
        n = rng.randint(1, 4)
        comps = [rng.choice(COMPONENTS) for _ in range(n)]
        if steer:
            comps = [c for c in comps if c != ".."] or ["a.txt"]
        p = "/".join(comps)
        if rng.random() < 0.6:
            p = "/" + p
        if rng.random() < 0.15:
            p = p.replace("/", "//", 1)
        return p

    def gen(self, rng, steer):
        cfg = {"passthrough": rng.random() < 0.3, "steer": steer, "win_api": rng.random() < 0.35}
        actions = []
        for _ in range(rng.randint(1, 25)):
            r = rng.random()
            if r < 0.3 and not steer:
                kind = rng.choice(["file", "dir", "abs_out", "rel_dotdot", "chain", "abs_guest", "remove", "longchain"])
                actions.append(["adv", kind, rng.choice(["l", "dl", "d/l", "x"]), rng.randrange(4)])
            elif r < 0.3:
                # steered runs keep only links that stay inside by themselves
                kind = rng.choice(["file", "remove"])
                actions.append(["adv", kind, rng.choice(["l", "x"]), rng.randrange(4)])
            elif r < 0.36 and cfg["win_api"]:
                comps = [rng.choice(WIN_COMPONENTS) for _ in range(rng.randint(1, 4))]
                if steer:
                    comps = [c for c in comps if ".." not in c] or ["a.txt"]
                name = rng.choice(["\\", "\\", "/"]).join(comps)
                form = rng.randrange(5)       # 0 relative, 1 drive, 2 leading separator, 3 host-absolute, 4 relative
                api = rng.choice(["CreateFileA", "CreateFileW", "CreateFileA", "fopen", "_wfopen", "PathIsDirectoryW"])
                actions.append(["win", api, name, form, rng.randrange(4), rng.randint(1, 5), rng.randrange(5)])
            elif r < 0.4:
                comps = [rng.choice(["..", "..", "a", "windows", "c:", ".", "", "x.txt", ".. ", " ..", "...", "a ", ". ", "..\t",
                                     "..", "A..", "%2e%2e"]) for _ in range(rng.randint(1, 4))]
                if steer:
                    comps = [c for c in comps if ".." not in c] or ["a"]
                sep = rng.choice(["\\", "\\", "/"])
                actions.append(["winpath" if rng.random() < 0.5 else "unixpath", sep.join(comps), rng.random() < 0.5])
            else:
                op = rng.choice(["resolve", "resolve_nf", "open", "open_nf", "exists", "readlink", "stat", "lstat"])
                if steer and op in ("resolve_nf", "open_nf", "lstat", "readlink"):
                    op = "resolve"
                actions.append(["guest", op, self._guest_path(rng, steer), rng.random() < 0.2])
        return {"cfg": cfg, "actions": actions}

    def simplify_action(self, a):
        if a[0] == "guest":
            p = a[2]
            parts = p.split("/")
            for i in range(len(parts)):
                q = "/".join(parts[:i] + parts[i + 1:])
                if q and q != p:
                    yield [a[0], a[1], q, a[3]]
            if a[3]:
                yield [a[0], a[1], a[2], False]

    def simplify_cfg(self, cfg):
        if cfg["passthrough"]:
            yield dict(cfg, passthrough=False)

    # ---- world ---------------------------------------------------------------------
    def make_world(self, cfg, log):
        w = World()
        w.n = getattr(self, "_n", 0)
        self._n = w.n + 1
        w.root = os.path.join(self.scratch_root, "c46_%d_%d" % (os.getpid(), w.n))
        shutil.rmtree(w.root, ignore_errors=True)
        w.base = os.path.join(w.root, "sb")
        w.outside = os.path.join(w.root, "outside")
        os.makedirs(os.path.join(w.base, "d"))
        os.makedirs(os.path.join(w.base, "etc"))
        os.makedirs(os.path.join(w.outside, "etc"))
        os.makedirs(os.path.join(w.outside, "d"))
        for rel in ("a.txt", "d/f.txt", "etc/passwd"):
            with open(os.path.join(w.base, rel), "w") as fd:
                fd.write("SB:" + rel)
        for rel in ("secret.txt", "etc/passwd", "a.txt", "d/f.txt", "f.txt"):
            with open(os.path.join(w.outside, rel), "w") as fd:
                fd.write("CANARY:" + rel)
        w.cwd_before = os.getcwd()
        os.chdir(w.outside)
        w.rec = []
        w.proxy = OsProxy(w.rec)
        self.environment.os = w.proxy
        w.env = self.environment.LinuxEnvironment_x86_64()
        w.fs = w.env.filesystem
        w.fs.base_path = w.base
        w.passthrough = None
        if cfg["passthrough"]:
            w.passthrough = os.path.join(w.outside, "secret.txt")
            w.fs.passthrough.append(w.passthrough)
        w.real_base = os.path.realpath(w.base)
        w.links = {}
        w.win = bool(cfg.get("win_api"))
        if w.win:
            # the Windows environment's sandbox base is 'file_sb' under the current directory (= <scratch>/outside,
            # next to the canary files)
            w.win_base = os.path.join(w.outside, "file_sb")
            for rel in ("a.txt", "d/f.txt", "c:/a.txt", "secret.txt", "x"):
                os.makedirs(os.path.dirname(os.path.join(w.win_base, rel)), exist_ok=True)
                with open(os.path.join(w.win_base, rel), "w") as fd:
                    fd.write("SB:" + rel)
            w.win_real_base = os.path.realpath(w.win_base)
            rec = w.rec

            def rec_open(path, *a, **k):
                rec.append(("follow", "open", path))
                return open(path, *a, **k)
            self.winapi.open = rec_open
            self.winapi.os = w.proxy
            self.winapi.winobjs.handle_pool = self.winapi.handle_generator()
        return w

    def teardown(self, w):
        self.environment.os = os
        if getattr(w, "win", False):
            self.winapi.os = os
            self.winapi.__dict__.pop("open", None)
            for wh in list(self.winapi.winobjs.handle_pool.all_handles.values()):
                if hasattr(wh.info, "close"):
                    try:
                        wh.info.close()
                    except (OSError, ValueError):
                        pass
        try:
            os.chdir(w.cwd_before)
        except OSError:
            os.chdir("/")
        for fd_obj in list(getattr(w.env, "file_descriptors", {}).values()):
            real_fd = getattr(fd_obj, "real_fd", None)
            if isinstance(real_fd, int):
                try:
                    os.close(real_fd)
                except OSError:
                    pass
        shutil.rmtree(w.root, ignore_errors=True)

    # ---- oracle ------------------------------------------------------------------------
    def _inside(self, w, host_path, follow):
        """Is @host_path, as the kernel resolves it, under the sandbox base?"""
        if isinstance(host_path, bytes):
            host_path = host_path.decode()
        p = os.path.join(os.getcwd(), host_path)
        if follow:
            real = os.path.realpath(p)
        else:
            real = os.path.join(os.path.realpath(os.path.dirname(p)), os.path.basename(p))
        return real == w.real_base or real.startswith(w.real_base + os.sep), real

    def _cause(self, w, guest, follow_link):
        """Discriminating facts: why could this guest path leave the base?"""
        g = guest.decode() if isinstance(guest, bytes) else guest
        norm = os.path.normpath(g)
        if norm.startswith(".."):
            return "relative_dotdot"
        comps = [c for c in norm.split("/") if c]
        cur = w.base
        for i, c in enumerate(comps):
            cur = os.path.join(cur, c)
            if os.path.islink(cur):
                if i < len(comps) - 1:
                    return "directory_symlink"
                target = os.readlink(cur)
                if not follow_link:
                    return "nofollow_returns_link_target"
                if not target.startswith("/") and ".." in target.split("/"):
                    return "link_target_dotdot"
                return "final_symlink"
        return "other"

    def _check_access(self, w, kind, func, host_path, guest, follow_link, facts):
        if w.passthrough is not None and host_path in (w.passthrough, w.passthrough.encode()):
            w.probe("passthrough_hit")
            return
        ok, real = self._inside(w, host_path, kind == "follow")
        if not ok:
            facts["via"] = self._cause(w, guest, follow_link)
            facts["seam"] = func
            shown = host_path.decode() if isinstance(host_path, bytes) else host_path
            raise Violation("C46/escape-" + facts["via"], "guest path %r: %s(%r) reaches %s, outside the sandbox base"
                            % (guest, func, shown.replace(w.root, "<scratch>"), real.replace(w.root, "<scratch>").replace(self.scratch_root, "<tmp>")), facts)

    def apply(self, w, a, log):
        k = a[0]
        if k == "adv":
            return self._adversary(w, a, log)
        if k == "win":
            return self._win(w, a, log)
        if k in ("winpath", "unixpath"):
            fn = self.common.windows_to_sbpath if k == "winpath" else self.common.unix_to_sbpath
            path = a[1]
            w.probe(k)
            out = fn(path)
            base = os.path.normpath(self.common.BASE_SB_PATH)
            norm = os.path.normpath(out)
            log.add(k, repr(path), "->", out)
            if not (norm == base or norm.startswith(base + os.sep)):
                raise Violation("C46/escape-mapper_dotdot", "%s(%r) = %r, which normalises to %r outside %r" % (k, path, out, norm, base),
                                {"op": k, "via": "mapper_dotdot"})
            return
        _, op, guest, as_bytes = a
        if as_bytes:
            guest = guest.encode()
            w.probe("guest_bytes_path")
        g = guest.decode() if as_bytes else guest
        if ".." in g.split("/"):
            w.probe("guest_dotdot")
        follow = op not in ("resolve_nf", "open_nf", "lstat", "readlink")
        facts = {"op": op, "follow_link": follow}
        del w.rec[:]
        result = exc = None
        try:
            if op in ("resolve", "resolve_nf"):
                w.probe("resolve")
                result = w.fs.resolve_path(guest, follow_link=follow)
            elif op in ("open", "open_nf"):
                w.probe("open")
                flags = w.env.O_RDONLY
                sb = w.fs.resolve_path(guest, follow_link=follow)
                if os.path.isdir(sb):
                    flags |= w.env.O_DIRECTORY
                del w.rec[:]
                result = w.env.open_(guest, flags, follow_link=follow)
            elif op == "exists":
                w.probe("exists")
                result = w.fs.exists(guest)
            elif op == "readlink":
                w.probe("readlink")
                result = w.fs.readlink(guest)
            elif op == "stat":
                w.probe("stat")
                result = w.env.stat(guest) is not None
            elif op == "lstat":
                w.probe("lstat")
                result = w.env.lstat(guest) is not None
        except (AssertionError, RuntimeError, OSError, RecursionError) as e:
            exc = type(e).__name__
        log.add("guest", op, repr(guest), "->", repr(result).replace(w.root, "<scratch>"), exc)
        cause = self._cause(w, guest, follow)
        if cause == "directory_symlink":
            w.probe("through_dir_link")
        elif cause in ("final_symlink", "link_target_dotdot", "nofollow_returns_link_target"):
            w.probe("final_link")
        # 1. the returned host path
        if op in ("resolve", "resolve_nf") and exc is None:
            self._check_access(w, "follow" if follow else "nofollow", "resolve_path", result, guest, follow, facts)
        # 2. every host path the operation touched at the os seam
        for kind, func, host_path in list(w.rec):
            self._check_access(w, kind, func, host_path, guest, follow, facts)
        # 3. end to end: bytes read back through a descriptor
        if op in ("open", "open_nf") and exc is None and isinstance(result, int) and result >= 0:
            fdesc = w.env.file_descriptors.get(result)
            real_fd = getattr(fdesc, "real_fd", None)
            if isinstance(real_fd, int):
                data = os.pread(real_fd, 64, 0)
                w.probe("data_read_back")
                if b"CANARY" in data and not (w.passthrough and data == b"CANARY:secret.txt"):
                    facts["via"] = cause
                    raise Violation("C46/canary-read", "guest open(%r) reads host bytes %r" % (guest, data), facts)

    # ---- the emulated Windows API ------------------------------------------------------
    def _win_call(self, func, *args):
        j = self.win_jitter
        j.cpu.ESP = self.win_esp
        for arg in reversed(args):
            j.push_uint32_t(arg & 0xFFFFFFFF)
        j.push_uint32_t(0x1337beef)
        func(j)
        return j.cpu.EAX

    def _win_check(self, w, what, guest, facts):
        for kind, func, host_path in list(w.rec):
            if isinstance(host_path, bytes):
                host_path = host_path.decode()
            if not isinstance(host_path, str):
                continue
            real = os.path.realpath(os.path.join(os.getcwd(), host_path))
            if not (real == w.win_real_base or real.startswith(w.win_real_base + os.sep)):
                facts["seam"] = func
                facts["via"] = "windows_api"
                raise Violation("C46/escape-windows_api", "%s on guest name %r: %s(%r) reaches %s, outside the sandbox base file_sb"
                                % (what, guest, func, host_path.replace(w.root, "<scratch>"), real.replace(w.root, "<scratch>")), facts)
        del w.rec[:]

    def _win(self, w, a, log):
        if not getattr(w, "win", False):
            return
        _, api, name, form, acc, disp, mode = a
        if form == 1:
            name = "c:\\" + name
        elif form == 2:
            name = "\\" + name
        elif form == 3:
            name = os.path.join(w.outside, name.replace("\\", "/"))
        shown = name.replace(w.root, "<scratch>")
        api_fn = self.winapi
        j = self.win_jitter
        wide = api in ("CreateFileW", "_wfopen", "PathIsDirectoryW")
        try:
            raw = name.encode("utf-16le") + b"\x00\x00" if wide else name.encode("latin-1") + b"\x00"
        except UnicodeEncodeError:
            return
        j.vm.set_mem(WIN_SCRATCH, raw[:0x800])
        facts = {"op": "win", "api": api}
        w.probe("win_" + api)
        del w.rec[:]
        handle = exc = None
        try:
            if api.startswith("CreateFile"):
                handle = self._win_call(getattr(api_fn, "kernel32_" + api), WIN_SCRATCH, WIN_ACCESS[acc], 0, 0, disp, 0x80, 0)
            elif api in ("fopen", "_wfopen"):
                m = WIN_FOPEN_MODES[mode]
                j.vm.set_mem(WIN_SCRATCH + 0x1000, m.encode("utf-16le") + b"\x00\x00" if wide else m.encode() + b"\x00")
                self._win_call(getattr(api_fn, "msvcrt_" + api), WIN_SCRATCH, WIN_SCRATCH + 0x1000)
            else:
                self._win_call(api_fn.shlwapi_PathIsDirectoryW, WIN_SCRATCH)
        except (NotImplementedError, ValueError, OSError, KeyError, AssertionError, RuntimeError) as e:
            exc = type(e).__name__
        log.add("win", api, repr(shown), acc, disp, mode, "->", "handle" if handle not in (None, 0xFFFFFFFF) else handle, exc)
        self._win_check(w, api, shown, facts)
        # follow-up calls on the returned handle reopen the file by the name stored with the handle
        pool = api_fn.winobjs.handle_pool
        if api.startswith("CreateFile") and exc is None and handle in pool:
            w.probe("win_handle_followup")
            for follow in ("GetFileSize", "GetFileSizeEx", "ReadFile"):
                try:
                    if follow == "GetFileSize":
                        self._win_call(api_fn.kernel32_GetFileSize, handle, 0)
                    elif follow == "GetFileSizeEx":
                        self._win_call(api_fn.kernel32_GetFileSizeEx, handle, WIN_SCRATCH + 0x2000)
                    elif WIN_ACCESS[acc] & 0x80000000 and hasattr(pool[handle].info, "read"):
                        self._win_call(api_fn.kernel32_ReadFile, handle, WIN_SCRATCH + 0x3000, 0x40, WIN_SCRATCH + 0x2000, 0)
                        data = j.vm.get_mem(WIN_SCRATCH + 0x3000, 0x40)
                        if b"CANARY" in data:
                            raise Violation("C46/canary-read", "ReadFile after %s(%r) reads host bytes %r" % (api, shown, data[:24]),
                                            dict(facts, via="windows_api"))
                except (NotImplementedError, ValueError, OSError, KeyError, AssertionError, RuntimeError, TypeError) as e:
                    log.add(" followup", follow, type(e).__name__)
                self._win_check(w, "%s after %s" % (follow, api), shown, facts)
            j.vm.set_mem(WIN_SCRATCH + 0x3000, b"\x00" * 0x40)

    def _adversary(self, w, a, log):
        _, kind, where, n = a
        path = os.path.join(w.base, where)
        if not os.path.isdir(os.path.dirname(path)) or os.path.islink(os.path.dirname(path)):
            return
        if os.path.lexists(path):
            if os.path.isdir(path) and not os.path.islink(path):
                return
            os.unlink(path)
            w.probe("adv_remove")
        if kind == "remove":
            log.add("adv remove", where)
            return
        if kind == "longchain":
            # a long, non-looping chain of links (deeper than any resolver's give-up limit) whose tail
            # leaves the sandbox if the host is ever allowed to follow it
            length = [8, 45, 70, 120][n]
            final = [os.path.join(w.outside, "secret.txt"), w.outside, "/" + os.path.relpath(w.outside, "/") + "/etc/passwd", "a.txt"][n]
            prev = final
            for i in range(length - 1, 0, -1):
                name = os.path.join(w.base, "c%d_%d" % (n, i))
                if os.path.lexists(name):
                    os.unlink(name)
                os.symlink(prev, name)
                prev = "c%d_%d" % (n, i)
            os.symlink(prev if "/" not in where else "../" + prev, path)
            w.probe("adv_long_chain")
            log.add("adv longchain", where, length, n)
            return
        depth = where.count("/")
        up = "../" * (depth + 1 + n % 2)
        target = {
            "file": ["a.txt", "d/f.txt", "./etc/passwd", "a.txt"][n],
            "dir": ["d", "etc", "./d", "d"][n],
            "abs_out": [os.path.join(w.outside, "secret.txt"), w.outside, os.path.join(w.outside, "etc"), os.path.join(w.outside, "a.txt")][n],
            "rel_dotdot": [up + "outside/secret.txt", up + "outside", up + "outside/etc/passwd", "../" * (depth + 3) + "etc/passwd"][n],
            "chain": ["l", "dl", "x", "d/l"][n],
            "abs_guest": ["/a.txt", "/d", "/etc/passwd", "/d/f.txt"][n],
        }[kind]
        if kind == "file" and depth:
            target = "../" * depth + target.lstrip("./")
        os.symlink(target, path)
        w.probe({"file": "adv_link_file", "dir": "adv_link_dir", "abs_out": "adv_link_abs_outside",
                 "rel_dotdot": "adv_link_rel_dotdot", "chain": "adv_chain", "abs_guest": "adv_link_abs_guest"}[kind])
        log.add("adv link", where, "->", target.replace(w.root, "<scratch>"))


_M = C46()


def get_machine(pid):
    return _M
