"""Machines of simulator A: C20 C21 C22 C23 C49 share one engine (a_sim) and
differ in the swarm configuration, the actors enabled and the oracle clauses
that are judged."""
import os
import random

from simkit import a_sim
from simkit.core import Machine, Violation, EventLog, derive

REGS32 = ["EAX", "EBX", "ECX", "EDX", "ESI", "EDI", "EBP"]


class AMachine(Machine):
    chunk = 12                 # runs per forked child (fork-per-run costs 20x on this VM: page faults)
    run_timeout = 240.0        # wall-clock guard only; a time-out that does not reproduce is not reported
    isolate_shrink = True
    shrink_max_evals = 150       # every candidate is a forked run of ~1 s
    selftest_runs = 12
    quick_budget_s = 170.0
    thorough_budget_s = 1500.0
    real_components = [
        "miasm.jitter.jitload.Jitter, JitCore, jitcore_python / jitcore_gcc, codegen, lifter, disassembler, LocationDB, BoundedDict",
        "VmMngr / JitCpu C extensions built from the working tree; gcc as the block compiler",
        "miasm assembler (workload generator only)",
    ]
    stub_components = ["host actors (debugger, tuner, host writer, fault injector, restarter) scripted by the seeded schedule",
                       "reference = the same engine in its most conservative schedule (python backend, 1 instruction per block, cold cache)"]
    assumptions = ["LLVM backend not available in this sandbox (no llvmlite): python and gcc backends only",
                   "guest workload generators: x86_32 (majority), x86_64, arml/armb, aarch64l, mips32l/mips32b (shares per check in simkit/a_machines.py); "
                   "ppc32, msp430, mep, x86_16 guests are not generated; semantics errors common to every schedule and backend are out of scope (C18/C19)",
                   "gcc-backend runs draw their program from a pool of %d per batch so that the private on-disk block cache warms up"]
    gcc_pool = 6
    gcc_fresh = 0.5            # share of the gcc runs that get a program of their own (with long blocks)
    gcc_share = 0.12           # share of runs on the gcc backend
    features = ["mem", "straddle", "stack", "call", "loop", "branch", "rep", "indirect", "multi", "exc", "exotic"]
    actors = []
    quick_runs = 420
    thorough_runs = 7000
    need_host_writes = False
    both_backends = False

    def setup(self):
        a_sim.env()
        # Warm the process image once, deterministically, before any fork: assembler tables,
        # parser caches, lifter and simplifier caches.  Every run is forked from this same image.
        if not getattr(AMachine, "_warmed", False):
            AMachine._warmed = True
            wrng = random.Random(0xC0FFEE)
            for k in range(32):
                arch = "arml" if k % 4 == 3 else "x86_32"
                feat = (set(self.features) | {"smc"}) if arch == "x86_32" else set(self.features) - {"rep", "indirect", "smc"}
                lines = a_sim.gen_program(arch, wrng, feat)
                try:
                    prog = a_sim.Program(arch, lines)
                    a_sim.Reference(arch, prog, a_sim.default_regs(arch, wrng), False)
                except a_sim.Discard:
                    pass

    # ---- generation ---------------------------------------------------------
    arm_share = 0.2            # share of runs with an ARM (arml) guest; the rest is x86_32
    mips_guest_share = 0.0     # share of (python-backend) runs with a MIPS guest
    a64_share = 0.1            # share of runs with an AArch64 guest
    x64_share = 0.12           # share of runs with an x86_64 guest (64-bit registers and memory accesses)

    def gen_program(self, rng, steer, arch="x86_32"):
        feat = set(f for f in self.features if rng.random() < 0.6)
        feat |= set(self.must_features)
        if steer and self.pid in ("C49", "C20"):
            feat.discard("multi")      # open finding: multi-store instructions are torn by a fault
        if arch != "x86_32":
            feat -= {"rep", "indirect", "smc"}
        if a_sim.family(arch) == "mips32l":
            feat -= {"multi"}
            if self.pid == "C21" and "mem" in feat:
                feat.add("slotmem")       # loads/stores in branch delay slots (no faults are injected in C21)
        return a_sim.gen_program(arch, rng, feat), sorted(feat)

    must_features = []
    be_share = 0.3             # share of the ARM / MIPS guests that run big-endian (armb, mips32b)

    def endianness(self, rng, arch):
        if arch in ("arml", "mips32l") and rng.random() < self.be_share:
            return {"arml": "armb", "mips32l": "mips32b"}[arch]
        return arch

    def gen_knobs(self, rng):
        return {"maxline": rng.choice([1, 2, 3, 5, 8, 50, 50]), "quantum": rng.choice([0, 0, 1, 2, 3, 7]),
                "cache_limit": rng.choice([3, 4, 6, 10, 10000, 10000]), "warm": rng.random() < 0.15, "carry": rng.random() < 0.5, "twin": rng.random() < 0.3}

    def gen(self, rng, steer):
        share = float(os.environ.get("VERIF_GCC_SHARE", self.gcc_share))
        backend = "gcc" if rng.random() < share else "python"
        fresh = backend == "gcc" and rng.random() < self.gcc_fresh
        if backend == "gcc" and not fresh:
            # program from the per-batch pool (same seed -> same program -> warm disk cache), any block length
            prng = random.Random(derive(getattr(self, "master_seed", 0), "pool", rng.randrange(self.gcc_pool)))
            r = prng.random()
            arch = "arml" if r < self.arm_share else "x86_64" if r < self.arm_share + self.x64_share else \
                "aarch64l" if r < self.arm_share + self.x64_share + self.a64_share else "x86_32"
            arch = self.endianness(prng, arch)
            lines, feat = self.gen_program(prng, steer, arch)
            init = a_sim.default_regs(arch, prng)
        else:
            r = rng.random()
            arch = "arml" if r < self.arm_share else "mips32l" if r < self.arm_share + self.mips_guest_share else \
                "x86_64" if r < self.arm_share + self.mips_guest_share + self.x64_share else \
                "aarch64l" if r < self.arm_share + self.mips_guest_share + self.x64_share + self.a64_share else "x86_32"
            arch = self.endianness(rng, arch)
            lines, feat = self.gen_program(rng, steer, arch)
            init = a_sim.default_regs(arch, rng)
        knobs = self.gen_knobs(rng)
        if fresh:
            # a fresh program on the gcc backend: long blocks only, so that it costs a handful of compilations
            knobs["maxline"] = rng.choice([5, 8, 50, 50])
        if arch != "x86_32":
            knobs.pop("esp_off", None)
        cfg = {"arch": arch, "backend": backend, "program": lines, "features": feat, "init_regs": init,
               "knobs": knobs, "heal": True}
        if knobs.get("esp_off") is not None:
            init["ESP"] = a_sim.STACK_BASE + knobs["esp_off"]
        actions = self.gen_actions(rng, cfg, steer)
        actions.sort(key=lambda a: a[0])
        return {"cfg": cfg, "actions": actions}

    pool_seed = 0

    def gen_actions(self, rng, cfg, steer):
        return []

    def _cp(self, rng):
        return rng.choice([rng.randint(1, 12), rng.randint(1, 40), rng.randint(1, 150)])

    @staticmethod
    def _pages_used(cfg):
        """Which of the data pages (0: D0, 1: D1, 2: RO) the program text touches, in order of
        first use: the injector aims at memory that in-flight work is going to access."""
        used = []
        if a_sim.family(cfg["arch"]) == "arml":
            for line in cfg["program"]:
                for tok, pages in (("[R9", (0, 1)), ("R9,", (0, 1)), ("[R10", (0,)), ("R10,", (0,)), ("[R11", (1,)), ("R11,", (1,)),
                                   ("[R8", (2,)), ("SP!", (3,))):
                    if tok in line:
                        for pg in pages:
                            if pg not in used:
                                used.append(pg)
            return used or [0]
        if cfg["arch"] == "aarch64l":
            for line in cfg["program"]:
                for tok, pages in (("[X9", (0, 1)), ("[X10", (0,)), ("[X11", (1,)), ("[X8", (2,)), ("[SP", (3,))):
                    if tok in line:
                        for pg in pages:
                            if pg not in used:
                                used.append(pg)
            return used or [0]
        if a_sim.family(cfg["arch"]) == "mips32l":
            for line in cfg["program"]:
                for tok, pages in (("(S2)", (0, 1)), ("(S0)", (0,)), ("(S1)", (1,)), ("(S3)", (2,)), ("(SP)", (3,))):
                    if tok in line:
                        for pg in pages:
                            if pg not in used:
                                used.append(pg)
            return used or [0]
        for line in cfg["program"]:
            for tok, page in (("[0x500f", 1), ("[0x5000", 0), ("[0x5001", 0), ("[0x5002", 0), ("[0x501", 1), ("[0x502", 2),
                              ("0x500", 0), ("0x501", 1)):
                if tok in line:
                    if tok == "[0x500f" and 0 not in used:
                        used.append(0)
                    if page not in used:
                        used.append(page)
                    break
        if any(l.startswith(("PUSH", "POP", "CALL")) for l in cfg["program"]):
            used.append(3)
            if cfg["knobs"].get("esp_off") is not None:
                used.append(4)
                used.append(4)
        return used or [0]

    def simplify_action(self, a):
        return ()

    def simplify_cfg(self, cfg):
        k = cfg["knobs"]
        if k.get("warm"):
            yield dict(cfg, knobs=dict(k, warm=False))
        if k.get("cache_limit") != 10000:
            yield dict(cfg, knobs=dict(k, cache_limit=10000))
        if k.get("quantum"):
            yield dict(cfg, knobs=dict(k, quantum=0))
        # drop program statements (labels and control flow may break: such candidates are discarded)
        prog = cfg["program"]
        for i in range(len(prog) - 1, 0, -1):
            line = prog[i]
            if line.endswith(":") or line.startswith(("J", "CALL", "RET", "end", "main")):
                continue
            yield dict(cfg, program=prog[:i] + prog[i + 1:])

    # ---- execution ------------------------------------------------------------
    def run(self, case, keep_log=False):
        log = EventLog(keep_log)
        probes = {}
        viol = None
        ticks = 0
        nontrivial = False
        cfg = case["cfg"]
        try:
            prog = a_sim.Program(cfg["arch"], cfg["program"])
            smc = "smc" in cfg["features"] or any(a[1] == "hw" and a[2] in ("code", "reload") for a in case["actions"])
            backends = ["python", "gcc"] if (self.both_backends and cfg["backend"] == "gcc") else [cfg["backend"]]
            init_mem = None
            if cfg["knobs"].get("warm") and cfg["knobs"].get("carry"):
                init_mem = a_sim.carried_memory(cfg["arch"], prog, cfg["init_regs"])
            finals = {}
            for backend in backends:
                c2 = dict(case, cfg=dict(cfg, backend=backend))
                has_hw = any(a[1] == "hw" for a in case["actions"])
                if has_hw:
                    # the run under test goes first here: make sure the program terminates at all
                    a_sim.Reference(cfg["arch"], prog, cfg["init_regs"], smc, None, init_mem)
                    run = a_sim.TestRun(self.pid, c2, prog, None, log, probes)
                    run.run()
                    stamps = {}
                    for d, addr, data in run.stamps:
                        stamps.setdefault(d, []).append((addr, data))
                    ref = a_sim.Reference(cfg["arch"], prog, cfg["init_regs"], smc, stamps, init_mem)
                    if ref.ambiguous:
                        raise a_sim.Discard("ambiguous stamp")
                    self.judge_posthoc(run, ref, log, probes)
                else:
                    ref = a_sim.Reference(cfg["arch"], prog, cfg["init_regs"], smc, None, init_mem)
                    if ref.ambiguous:
                        raise a_sim.Discard("repeated state in the reference")
                    run = a_sim.TestRun(self.pid, c2, prog, ref, log, probes)
                    run.run()
                ticks = ref.ticks
                self.judge_end(run, ref, log, probes)
                finals[backend] = (run.final_digest, [e for e in run.events if e[2] == "hit"],
                                   [(e[0], e[3]) for e in run.events if e[2] == "mbp_hit"])
                log.add("final", backend, run.final_digest, hex(run.final_pc), ref.ticks)
            if len(finals) == 2:
                probes["both_backends_compared"] = probes.get("both_backends_compared", 0) + 1
                (da, ha, ma), (db, hb, mb) = finals["python"], finals["gcc"]
                if ma != mb:
                    raise Violation(self.pid + "/backends-disagree", "memory-breakpoint hits differ: python at (tick, pc) %s, gcc at %s"
                                    % ([(t, hex(pc)) for t, pc in ma][:4], [(t, hex(pc)) for t, pc in mb][:4]), {"what": "membp"})
                if da != db:
                    raise Violation(self.pid + "/backends-disagree", "final state digests differ between python and gcc", {"what": "final"})
                if [(h[0], h[3], h[4]) for h in ha] != [(h[0], h[3], h[4]) for h in hb]:
                    raise Violation(self.pid + "/backends-disagree", "breakpoint hit sequences differ between python and gcc", {"what": "hits"})
            nontrivial = ticks >= 5
        except Violation as v:
            viol = v.as_dict(None)
            log.add("VIOLATION", v.cls, v.detail)
        except a_sim.Discard as d:
            probes["discarded"] = probes.get("discarded", 0) + 1
            log.add("discard", str(d))
        res = {"viol": viol, "digest": log.digest(), "ops": log.n, "ticks": ticks, "probes": probes, "nontrivial": nontrivial}
        if keep_log:
            res["log"] = log.lines
        return res

    def run_replicas_only(self, case, keep_log=False):
        """C20 on an architecture whose conservative reference schedule is itself suspect (mips32: branch
        delay slots): no reference, the python and gcc replicas run the same schedule with one block per
        call - their control points coincide - and are compared with each other: sequence of full-state
        digests at the control points, breakpoint hits, termination, final state."""
        log = EventLog(keep_log)
        probes = {}
        viol = None
        cfg = case["cfg"]
        ticks = 0
        try:
            prog = a_sim.Program(cfg["arch"], cfg["program"])
            out = {}
            for backend in ("gcc", "python"):
                c2 = dict(case, cfg=dict(cfg, backend=backend))
                run = a_sim.TestRun(self.pid, c2, prog, None, log, probes)
                try:
                    run.run()
                    out[backend] = ("ended" if run.ended else "stopped", run.final_digest, list(run.cp_digests),
                                    [(e[3], e[4]) for e in run.events if e[2] == "hit"])
                except Violation as v:
                    if v.cls.endswith(("/no-progress", "/host-exception")):
                        out[backend] = (v.cls.split("/")[1], v.detail, list(run.cp_digests), [])
                    else:
                        raise
                log.add("replica", backend, out[backend][0], len(out[backend][2]))
            g, p = out["gcc"], out["python"]
            probes["replicas_compared"] = 1
            ticks = len(g[2])
            if g[0] != "ended" and p[0] != "ended":
                raise a_sim.Discard("neither replica terminates: %s / %s" % (g[0], p[0]))
            facts = {"arch": cfg["arch"], "maxline": cfg["knobs"].get("maxline"), "gcc": g[0], "python": p[0],
                     "breakpoints": any(a[1].startswith("bp") for a in case["actions"])}
            if g[0] != p[0]:
                raise Violation("C20/backends-disagree", "%s guest, block length %s: gcc replica %s, python replica %s (%s)"
                                % (cfg["arch"], cfg["knobs"].get("maxline"), g[0], p[0], (p[1] if p[0] != "ended" else g[1])[:160]), facts)
            n = min(len(g[2]), len(p[2]))
            for i in range(n):
                if g[2][i] != p[2][i]:
                    raise Violation("C20/backends-disagree", "%s guest, block length %s: the replicas differ at control point %d of %d"
                                    % (cfg["arch"], cfg["knobs"].get("maxline"), i + 1, n), facts)
            if len(g[2]) != len(p[2]) or g[1] != p[1]:
                raise Violation("C20/backends-disagree", "%s guest: final states or control-point counts differ (%d vs %d)"
                                % (cfg["arch"], len(g[2]), len(p[2])), facts)
            if g[3] != p[3]:
                raise Violation("C20/backends-disagree", "%s guest: breakpoint hit sequences differ" % cfg["arch"], facts)
            probes["runs_completed"] = 2
        except Violation as v:
            viol = v.as_dict(None)
            log.add("VIOLATION", v.cls, v.detail)
        except a_sim.Discard as d:
            probes["discarded"] = probes.get("discarded", 0) + 1
            log.add("discard", str(d))
        res = {"viol": viol, "digest": log.digest(), "ops": log.n, "ticks": ticks, "probes": probes, "nontrivial": ticks >= 5}
        if keep_log:
            res["log"] = log.lines
        return res

    def judge_posthoc(self, run, ref, log, probes):
        """Host-write mode: I1 over the recorded control points."""
        last = -1
        for i, d in enumerate(run.cp_digests):
            t = ref.index.get(d)
            if t is None or t < last:
                raise Violation(self.pid + "/" + self.diverge_class, "%s backend: control point %d of the run is %s the reference path "
                                "(reference replays the %d host writes at their stamped states; last matched tick %d of %d)"
                                % (run.backend, i + 1, "not on" if t is None else "behind on", len(run.stamps), last, ref.ticks),
                                {"backend": run.backend, "host_writes": len(run.stamps), "maxline": run.cfg["knobs"].get("maxline")})
            last = t
        if ref.applied_writes != len(run.stamps):
            raise a_sim.Discard("reference applied %d of %d host writes" % (ref.applied_writes, len(run.stamps)))

    diverge_class = "diverged"

    def judge_end(self, run, ref, log, probes):
        facts = {"backend": run.backend, "maxline": run.cfg["knobs"].get("maxline"), "quantum": run.cfg["knobs"].get("quantum")}
        if run.terminal_fault:
            probes["terminal_fault_runs"] = probes.get("terminal_fault_runs", 0) + 1
            return
        if not run.ended:
            raise Violation(self.pid + "/final-state", "run ended without reaching the end address", facts)
        if run.exc_count != len(ref.exc_log):
            raise Violation(self.pid + "/soft-exception-lost", "%s backend: %d software exceptions handled, the reference handled %d"
                            % (run.backend, run.exc_count, len(ref.exc_log)), facts)
        if run.final_digest != ref.final or run.final_pc != ref.final_pc:
            raise Violation(self.pid + "/final-state", "%s backend: final state differs from the reference (pc %#x vs %#x, %d reference ticks)"
                            % (run.backend, run.final_pc, ref.final_pc, ref.ticks), facts)
        probes["runs_completed"] = probes.get("runs_completed", 0) + 1


class C21(AMachine):
    pid = "C21"
    title = "results do not depend on block partitioning or caching"
    rule = ("seeded (program, schedule) pairs: x86_32 programs of 3-60 statements (ALU, loads/stores incl. page-straddling, push/pop, "
            "call/ret, branches, counted loops, REP, indirect jumps); knobs: backend, block length {1,2,3,5,8,50}, per-call limit "
            "{0,1,2,3,7}, cache limit {3,4,6,10,10000}, warm start; tuner actions at seeded control points (set_options, "
            "clear_jitted_blocks), stop/resume, warm/cold restart; non-trivial = reference has >=5 ticks; distinct = distinct event-log digest")
    actors = ["tuner", "restarter"]
    mips_guest_share = 0.12
    features = ["mem", "straddle", "stack", "call", "loop", "branch", "rep", "indirect", "multi", "smc", "exc", "exotic"]
    expected_probes = ["tuner_set_options", "tuner_clear_cache", "stop_resume", "restart_warm", "restart_cold", "warm_start",
                       "runs_completed"]

    def gen_actions(self, rng, cfg, steer):
        acts = []
        for _ in range(rng.choice([0, 1, 2, 4, 8])):
            r = rng.random()
            cp = self._cp(rng)
            if r < 0.45:
                acts.append([cp, "opt", rng.choice([1, 2, 3, 5, 8, 50]), rng.choice([0, 1, 2, 3, 7])])
            elif r < 0.65:
                acts.append([cp, "clear"])
            elif r < 0.85:
                acts.append([cp, "stop"])
            else:
                acts.append([cp, "restart", rng.choice(["warm", "cold"])])
        return acts


class C23(AMachine):
    pid = "C23"

    def gen_knobs(self, rng):
        k = AMachine.gen_knobs(self, rng)
        k["warm"] = rng.random() < 0.35      # breakpoints set on code that is already translated
        return k

    title = "breakpoints fire exactly when execution reaches their address"
    rule = ("seeded (program, schedule) pairs as C21 plus a debugger actor: add_breakpoint / set_breakpoint / remove_by_address / "
            "remove_by_callback at seeded control points (incl. from inside a callback), 3 callbacks, addresses = any instruction "
            "start of the program (block starts, mid-block, loop bodies, never reached), callbacks that stop the run; expected "
            "invocations are computed from the reference pc sequence, not from miasm's breakpoint code")
    actors = ["debugger", "tuner"]
    mips_guest_share = 0.08
    must_features = ["loop"]     # loop heads: addresses that start one block and lie inside another
    expected_probes = ["debugger_bp_add", "debugger_bp_set", "debugger_remove_by_address", "debugger_remove_by_callback",
                       "bp_hit", "bp_callback_stops_run", "bp_removed_from_inside_callback", "hits_judged", "runs_completed",
                       "bp_on_branch_target", "warm_start"]

    def gen_actions(self, rng, cfg, steer):
        acts = []
        n = rng.choice([1, 2, 4, 8, 14])
        for _ in range(n):
            r = rng.random()
            cp = rng.choice([1, 1, self._cp(rng)])
            where = ["L", rng.randrange(16)] if rng.random() < 0.6 else rng.randrange(200)
            if r < 0.5:
                acts.append([cp, "bp_add", where, rng.randrange(3)])
            elif r < 0.6 and not steer:
                acts.append([cp, "bp_set", where, rng.randrange(3)])
            elif r < 0.72:
                acts.append([cp, "bp_rm_addr", rng.randrange(8)])
            elif r < 0.8:
                acts.append([cp, "bp_rm_cb", rng.randrange(3)])
            elif r < 0.9:
                acts.append([cp, "stop"])
            elif r < 0.96:
                acts.append([cp, "opt", rng.choice([1, 2, 3, 5, 8, 50]), rng.choice([0, 1, 2, 3, 7])])
            else:
                acts.append([cp, "clear"])
        return acts

    def judge_end(self, run, ref, log, probes):
        AMachine.judge_end(self, run, ref, log, probes)
        ok, cls, msg = a_sim.expected_breakpoint_hits(ref, run.events, run.prog.end)
        probes["hits_judged"] = probes.get("hits_judged", 0) + len([e for e in run.events if e[2] == "hit"])
        if not ok:
            used_set = any(e[2] == "bp_set" for e in run.events)
            raise Violation("C23/" + cls, "%s backend: %s" % (run.backend, msg),
                            {"backend": run.backend, "used_set_breakpoint": used_set,
                             "maxline": run.cfg["knobs"].get("maxline")})


class C22(AMachine):
    pid = "C22"
    title = "modified code is re-translated before it runs again"
    rule = ("seeded self-modifying programs (code cells MOV r, imm32 + log store; guest stores overwriting immediate bytes of cells "
            "before, between and inside a loop over the cells) and host writes (vm.set_mem on cell bytes and on data at seeded control "
            "points); knobs as C21; judged against the reference with the cache cleared before every step and the host writes replayed "
            "at their stamped states")
    must_features = ["smc"]
    arm_share = 0.0            # the self-modifying cells are x86 encodings
    x64_share = 0.0            # ... 32-bit ones (absolute disp32 addressing)
    a64_share = 0.0
    features = ["mem", "stack", "loop", "branch"]
    actors = ["host writer", "tuner", "debugger"]
    diverge_class = "stale-code"
    expected_probes = ["host_write_code", "host_write_data", "host_write_reload", "host_write_tail", "tuner_set_options", "runs_completed"]

    def gen_actions(self, rng, cfg, steer):
        acts = []
        for _ in range(rng.choice([0, 1, 2, 4])):
            cp = self._cp(rng)
            r = rng.random()
            if r < 0.12:
                acts.append([cp, "hw", "reload", rng.randrange(64), [rng.getrandbits(8)]])
            elif r < 0.6:
                acts.append([cp, "hw", "code", rng.randrange(64), [rng.getrandbits(8)]])
            elif r < 0.8:
                acts.append([cp, "hw", "data", rng.randrange(64), [rng.getrandbits(8) for _ in range(rng.randint(1, 4))]])
            elif r < 0.88:
                acts.append([cp, "opt", rng.choice([1, 2, 3, 5, 8, 50]), rng.choice([0, 1, 2, 3, 7])])
            elif r < 0.94:
                acts.append([cp, "stop"])
            else:
                # the debugger registers a breakpoint between a host write and the resumption
                acts.append([cp, "bp_add", ["L", rng.randrange(16)] if rng.random() < 0.5 else rng.randrange(200), rng.randrange(3)])
        if rng.random() < 0.5:
            # the debugger installs a breakpoint (the translated ranges are re-registered) and, at the same control
            # point, the host patches the last byte of the translated code
            cp = rng.choice([rng.randint(1, 6), rng.randint(1, 25)])
            acts.append([cp, "bp_add", ["L", rng.randrange(16)] if rng.random() < 0.5 else rng.randrange(200), rng.randrange(3)])
            acts.append([cp, "hw", "tail", 0, [rng.getrandbits(8)]])
        if rng.random() < 0.4:
            # two host writes at one control point, the first one outside the translated code (data, as a host
            # pushing arguments would), the second one into a cell: both are pending when the jitter next looks
            cp = self._cp(rng)
            acts.append([cp, "hw", "data", rng.randrange(64), [rng.getrandbits(8) for _ in range(rng.randint(1, 4))]])
            acts.append([cp, "hw", "code", rng.randrange(64), [rng.getrandbits(8)]])
        # host writes followed at once by another host action at the same control point
        for a in list(acts):
            if a[1] == "hw" and rng.random() < 0.5:
                acts.append([a[0], "bp_add", ["L", rng.randrange(16)] if rng.random() < 0.5 else rng.randrange(200), rng.randrange(3)])
        return acts

    def gen_knobs(self, rng):
        k = AMachine.gen_knobs(self, rng)
        k["warm"] = rng.random() < 0.4       # code that is already translated when it gets overwritten
        return k

    def run(self, case, keep_log=False):
        res = AMachine.run(self, case, keep_log)
        v = res.get("viol")
        if v and v["cls"] in ("C22/diverged", "C22/final-state"):
            v["cls"] = "C22/stale-code"
        return res


class C49(AMachine):
    pid = "C49"

    def gen_knobs(self, rng):
        k = AMachine.gen_knobs(self, rng)
        if rng.random() < 0.3:
            k["esp_off"] = rng.choice([0x4, 0x8, 0x10, 0x1c, 0x20])     # stack pointer just above a page boundary
        return k

    title = "a faulting instruction has no effect and leaves pc on it"
    rule = ("seeded (program, schedule) pairs as C21 with memory-heavy programs and a fault injector: at seeded control points a data "
            "page is unmapped or loses R or W (incl. the second page of a straddling access); at the fault stop pc, flags and the "
            "whole state are compared with the reference state before that instruction, the fault is healed and the run must "
            "complete on the reference path; both backends")
    mips_guest_share = 0.08
    must_features = ["mem", "straddle"]
    # no REP: miasm runs all iterations of a REP instruction inside one IR loop, so the reference has
    # no per-iteration states to compare a mid-REP fault stop with (stated limit, see DESIGN)
    features = ["mem", "straddle", "stack", "call", "loop", "branch", "indirect", "ro", "multi", "exc", "exotic"]
    actors = ["fault injector", "tuner"]
    gcc_share = 0.25
    gcc_fresh = 1.0
    expected_probes = ["fault_injected_unmap", "fault_injected_perm", "fault_stop", "fault_healed", "runs_completed",
                       "fault_on_straddling_access", "fault_kind_load", "fault_kind_store", "fault_kind_rmw", "fault_kind_stack",
                       "fault_at_block_start", "fault_inside_block"]

    def gen_actions(self, rng, cfg, steer):
        acts = []
        used = self._pages_used(cfg)
        for _ in range(rng.choice([1, 1, 2, 3, 6])):
            cp = rng.choice([rng.randint(1, 4), rng.randint(1, 10), self._cp(rng)])
            r = rng.random()
            page = rng.choice(used) if rng.random() < 0.8 else rng.randrange(5)
            if r < 0.5:
                acts.append([cp, "unmap", page])
            elif r < 0.85:
                acts.append([cp, "perm", {0: 0, 1: 1, 2: 0, 3: 2, 4: 3}[page], rng.randrange(3)])
            elif r < 0.95:
                acts.append([cp, "opt", rng.choice([1, 2, 3, 5, 8, 50]), rng.choice([0, 1, 2, 3, 7])])
            else:
                acts.append([cp, "stop"])
        return acts


class C20(AMachine):
    pid = "C20"
    title = "all jitter backends produce the same execution"
    rule = ("seeded (program, schedule) pairs with every actor enabled (tuner, debugger, fault injector with healed and terminal "
            "faults); each case is executed on the python and on the gcc backend, each judged against the reference and the two "
            "compared directly (final state, breakpoint hit sequence)")
    actors = ["tuner", "debugger", "fault injector"]
    features = ["mem", "straddle", "stack", "call", "loop", "branch", "indirect", "ro", "multi", "exc", "exotic"]
    both_backends = True
    gcc_share = 1.0
    gcc_fresh = 0.7
    gcc_pool = 10
    quick_runs = 140
    thorough_runs = 2500
    expected_probes = ["both_backends_compared", "fault_stop", "bp_hit", "tuner_set_options", "runs_completed", "terminal_fault_runs",
                       "memory_breakpoint_added", "memory_breakpoint_hit", "memory_breakpoint_runs_judged"]

    def gen_program(self, rng, steer, arch="x86_32"):
        # two kinds of histories: with injected faults (no REP: see C49) or debugger-only, where REP string
        # instructions (several IR blocks per instruction) meet code and memory breakpoints
        self._mode = "faults" if rng.random() < 0.6 else "debug"
        feats = self.features
        if self._mode == "debug":
            self.features = feats + ["rep"]
            self.must_features = ["rep_sure"]
        try:
            return AMachine.gen_program(self, rng, steer, arch)
        finally:
            self.features = feats
            self.must_features = []

    mips_share = 0.12

    def run(self, case, keep_log=False):
        if a_sim.family(case["cfg"]["arch"]) == "mips32l":
            return self.run_replicas_only(case, keep_log)
        return AMachine.run(self, case, keep_log)

    def gen_mips(self, rng, steer):
        feat = set(f for f in ["mem", "straddle", "stack", "call", "loop", "branch"] if rng.random() < 0.6)
        arch = self.endianness(rng, "mips32l")
        lines = a_sim.gen_program(arch, rng, feat)
        knobs = {"maxline": rng.choice([1, 2, 3, 5, 8, 50, 1000]), "quantum": 1, "cache_limit": 10000, "warm": False}
        cfg = {"arch": arch, "backend": "gcc", "program": lines, "features": sorted(feat),
               "init_regs": a_sim.default_regs(arch, rng), "knobs": knobs, "heal": True, "mode": "replicas"}
        acts = []
        for _ in range(rng.choice([0, 0, 1, 2, 4])):
            r = rng.random()
            cp = self._cp(rng)
            if r < 0.5:
                acts.append([cp, "bp_add", ["L", rng.randrange(16)] if rng.random() < 0.5 else rng.randrange(200), rng.randrange(3)])
            elif r < 0.8:
                acts.append([cp, "opt", rng.choice([1, 2, 3, 5, 8, 50]), 1])
            else:
                acts.append([cp, "stop"])
        acts.sort(key=lambda a: a[0])
        return {"cfg": cfg, "actions": acts}

    ops_share = 0.3
    EDGE = [0, 1, 2, 7, 8, 9, 15, 16, 17, 31, 32, 33, 63, 64, 0x80, 0xFF, 0x100, 0x7FFF, 0x8000, 0xFFFF, 0x7FFFFFFF, 0x80000000,
            0x80000001, 0xFFFFFF80, 0xFFFF8000, 0xFFFFFFFF]

    def gen_ops(self, rng):
        """Operator sweep: a straight line of the less common integer instructions (shifts and rotates by register
        counts wider than the operand, narrow operands, double shifts, bit scans, wide multiplies, conditional
        moves) over edge-case register values, executed by both backends."""
        arch = self.endianness(rng, rng.choice(["x86_32", "x86_32", "arml"]))
        lines = a_sim.gen_program(arch, rng, {"exotic", "exotic_only"})
        init = a_sim.default_regs(arch, rng)
        for name in a_sim.scratch_regs(arch):
            if name in init and rng.random() < 0.7:
                init[name] = rng.choice(self.EDGE)
        knobs = {"maxline": rng.choice([50, 50, 8, 3]), "quantum": 1, "cache_limit": 10000, "warm": False, "twin": rng.random() < 0.3}
        cfg = {"arch": arch, "backend": "gcc", "program": lines, "features": ["exotic", "exotic_only"], "init_regs": init,
               "knobs": knobs, "heal": True, "mode": "ops"}
        return {"cfg": cfg, "actions": []}

    def gen(self, rng, steer):
        if rng.random() < self.mips_share:
            return self.gen_mips(rng, steer)
        if rng.random() < self.ops_share:
            return self.gen_ops(rng)
        case = AMachine.gen(self, rng, steer)
        case["cfg"]["heal"] = rng.random() < 0.8
        case["cfg"]["mode"] = self._mode
        # one block per call on both backends: their control points coincide, so one schedule
        # (actions keyed by control-point number) is the same history for both replicas
        case["cfg"]["knobs"]["quantum"] = 1
        if rng.random() < 0.25 and case["cfg"]["arch"] == "x86_32":
            case["cfg"]["knobs"]["esp_off"] = rng.choice([0x4, 0x8, 0x10, 0x1c, 0x20])
            case["cfg"]["init_regs"]["ESP"] = a_sim.STACK_BASE + case["cfg"]["knobs"]["esp_off"]
        for a in case["actions"]:
            if a[1] == "opt":
                a[3] = 1
        return case

    def gen_actions(self, rng, cfg, steer):
        acts = []
        debug = getattr(self, "_mode", "faults") == "debug"
        for _ in range(rng.choice([0, 1, 2, 4, 6])):
            cp = self._cp(rng)
            r = rng.random()
            if debug and r < 0.4:
                # debugger-only history: breakpoints instead of faults
                r = 0.95 if r < 0.3 else 0.5
            if r < 0.25:
                acts.append([rng.choice([rng.randint(1, 6), cp]), "unmap", rng.choice(self._pages_used(cfg))])
            elif r < 0.4:
                acts.append([rng.choice([rng.randint(1, 6), cp]), "perm", rng.choice(self._pages_used(cfg)) % 2, rng.randrange(3)])
            elif r < 0.7:
                acts.append([cp, "bp_add", ["L", rng.randrange(16)] if rng.random() < 0.4 else rng.randrange(200), rng.randrange(3)])
            elif r < 0.8:
                acts.append([cp, "bp_rm_addr", rng.randrange(8)])
            elif r < 0.86:
                acts.append([cp, "opt", rng.choice([1, 2, 3, 5, 8, 50]), rng.choice([0, 1, 2, 3, 7])])
            elif r < 0.91:
                acts.append([cp, "stop"])
            elif r < 0.98:
                acts.append([rng.choice([1, 1, cp]), "mbp", rng.randrange(13), rng.randrange(4), rng.randrange(3)])
            else:
                acts.append([cp, "mbp_rm", rng.randrange(4)])
        if debug and rng.random() < 0.7:
            # watch what the string instruction reads or writes, from the start of the run
            acts.append([1, "mbp", rng.choice([9, 10, 11, 12, 0, 5]), rng.randrange(4), rng.randrange(3)])
        return acts

    def judge_end(self, run, ref, log, probes):
        AMachine.judge_end(self, run, ref, log, probes)
        if any(e[2].startswith("mbp") for e in run.events) and not run.terminal_fault and not run.fault_stops:
            ok, cls, msg = a_sim.expected_memory_breakpoints(ref, run.events)
            probes["memory_breakpoint_runs_judged"] = probes.get("memory_breakpoint_runs_judged", 0) + 1
            if not ok:
                raise Violation("C20/" + cls, "%s backend: %s" % (run.backend, msg), {"backend": run.backend})


_MACHINES = {"C20": C20(), "C21": C21(), "C22": C22(), "C23": C23(), "C49": C49()}


def get_machine(pid):
    return _MACHINES[pid]
