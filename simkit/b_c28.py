"""C28 — LocationDB operation histories against a relational model.

Model: loc -> (offset or None, set of names), required to stay a pair of
partial injections.  Every API call is applied to the real database; when it
returns normally its documented effect is applied to the model, the model must
stay consistent (otherwise the call should have been rejected) and every getter
of the real database must agree with the model.  When it raises, every getter
must answer as before (rejected operations leave the database unchanged).

Faults are the API's own rejection paths, driven hard by tiny name and offset
pools: duplicate names/offsets, operations on removed locations, non-strict
creation colliding by name, by offset, or by both, merge with overlaps.
"""
from simkit.core import Violation
from simkit.opmachine import OpMachine, World

NAMES = ["n%d" % i for i in range(6)]
OFFSETS = [0, 0x10, 0x20, 0xFFFFFFFF, 0x50, 1]


class DBW(object):
    """A real LocationDB and its model."""

    def __init__(self, LocationDB):
        self.db = LocationDB()
        self.model = {}      # LocKey -> [offset|None, set(names)]
        self.pool = []       # every LocKey ever returned (removed ones stay)

    def snapshot(self):
        db = self.db
        locs = sorted(db.loc_keys, key=lambda l: l.key)
        snap = {"locs": [(l.key, db.get_location_offset(l), tuple(sorted(db.get_location_names(l)))) for l in locs],
                "names": sorted((n, db.get_name_location(n).key) for n in db.names),
                "offsets": sorted((o, db.get_offset_location(o).key) for o in db.offsets)}
        return snap

    def model_snapshot(self):
        locs = sorted(self.model, key=lambda l: l.key)
        return {"locs": [(l.key, self.model[l][0], tuple(sorted(self.model[l][1]))) for l in locs],
                "names": sorted((n, l.key) for l in self.model for n in self.model[l][1]),
                "offsets": sorted((self.model[l][0], l.key) for l in self.model if self.model[l][0] is not None)}

    def name_owner(self, name):
        for l, (_, names) in self.model.items():
            if name in names:
                return l
        return None

    def offset_owner(self, off):
        for l, (o, _) in self.model.items():
            if o == off:
                return l
        return None

    def resync(self):
        db = self.db
        self.model = {l: [db.get_location_offset(l), set(db.get_location_names(l))] for l in db.loc_keys}
        for l in sorted(db.loc_keys, key=lambda l: l.key):
            if l not in self.pool:
                self.pool.append(l)


class C28(OpMachine):
    pid = "C28"
    title = "LocationDB stays consistent"
    rule = ("seeded histories (1-40 ops) of add_location (strict/non-strict, +-name, +-offset), add/remove name, "
            "set/unset offset (+-force), remove_location, get_or_create_*, merge with a second seeded database, "
            "over pools of 6 names and 6 offsets; non-trivial = >=3 ops; distinct = distinct event-log digest")
    real_components = ["miasm.core.locationdb.LocationDB (real code)", "miasm.expression.expression.LocKey"]
    stub_components = ["reference model: loc -> (offset, names) with injectivity check"]
    assumptions = ["state after a merge that raises on a genuinely conflicting pair of databases is only required to be consistent",
                   "a call on a LocKey that is not in the database counts as a rejected operation (assert)"]
    quick_runs = 30000
    thorough_runs = 500000
    chunk = 500
    expected_probes = ["rejected", "rejected_unknown_loc", "nonstrict_known_name", "nonstrict_known_offset",
                       "nonstrict_known_offset_new_name", "nonstrict_both_known", "nonstrict_new",
                       "merge_ok", "merge_conflict", "merge_overlap_ok", "remove_location", "force_override",
                       "strict_reject"]

    def setup(self):
        from miasm.core.locationdb import LocationDB
        from miasm.expression.expression import LocKey
        self.LocationDB = LocationDB
        self.LocKey = LocKey

    # ---- generation -------------------------------------------------------
    def _gen_ops(self, rng, n, allow_merge):
        kinds = (["add"] * 4 + ["add_ns"] * 4 + ["add_name"] * 3 + ["rm_name"] * 2 + ["set_off"] * 3 +
                 ["unset_off"] * 1 + ["rm_loc"] * 1 + ["goc_name", "goc_off"])
        if allow_merge:
            kinds += ["merge"] * 2
        nn = rng.randint(2, 6)
        no = rng.randint(2, 6)
        out = []
        for _ in range(n):
            k = rng.choice(kinds)
            name = rng.choice([None, rng.randrange(nn), rng.randrange(nn)])
            off = rng.choice([None, rng.randrange(no), rng.randrange(no)])
            loc = rng.randrange(8)
            if k in ("add", "add_ns"):
                out.append([k, name, off])
            elif k in ("add_name", "rm_name"):
                out.append([k, loc, rng.randrange(nn)])
            elif k == "set_off":
                out.append([k, loc, rng.randrange(no), rng.random() < 0.4])
            elif k in ("unset_off", "rm_loc"):
                out.append([k, loc])
            elif k == "goc_name":
                out.append([k, rng.randrange(nn)])
            elif k == "goc_off":
                out.append([k, rng.randrange(no)])
            else:
                out.append([k])
        return out

    def gen(self, rng, steer):
        n = rng.randint(1, 40)
        other = self._gen_ops(rng, rng.randint(0, 10), False)
        return {"cfg": {"other": other}, "actions": self._gen_ops(rng, n, True)}

    def simplify_action(self, a):
        for i in range(1, len(a)):
            if isinstance(a[i], bool):
                if a[i]:
                    yield a[:i] + [False] + a[i + 1:]
            elif isinstance(a[i], int) and a[i] > 0:
                yield a[:i] + [0] + a[i + 1:]
            elif a[i] is not None and not isinstance(a[i], bool) and a[0] in ("add", "add_ns"):
                yield a[:i] + [None] + a[i + 1:]

    def simplify_cfg(self, cfg):
        o = cfg["other"]
        for k in range(len(o)):
            yield {"other": o[:k] + o[k + 1:]}

    # ---- execution ----------------------------------------------------------
    def make_world(self, cfg, log):
        w = World()
        w.main = DBW(self.LocationDB)
        w.other = DBW(self.LocationDB)
        for a in cfg["other"]:
            if a[0] != "merge":
                self._apply(w, w.other, a, log, "other")
        return w

    def apply(self, w, a, log):
        self._apply(w, w.main, a, log, "main")

    def _loc(self, d, idx):
        if not d.pool:
            return self.LocKey(1000 + idx)   # a LocKey the database never issued
        return d.pool[idx % len(d.pool)]

    def _apply(self, w, d, a, log, tag):
        db = d.db
        k = a[0]
        before = d.snapshot()
        facts = {"op": k}
        res = None
        exc = None
        name = off = loc = None
        if k == "merge":
            return self._merge(w, d, log)
        try:
            if k in ("add", "add_ns"):
                name = None if a[1] is None else NAMES[a[1]]
                off = None if a[2] is None else OFFSETS[a[2]]
                res = db.add_location(name=name, offset=off, strict=(k == "add"))
            elif k == "add_name":
                loc, name = self._loc(d, a[1]), NAMES[a[2]]
                db.add_location_name(loc, name)
            elif k == "rm_name":
                loc, name = self._loc(d, a[1]), NAMES[a[2]]
                db.remove_location_name(loc, name)
            elif k == "set_off":
                loc, off = self._loc(d, a[1]), OFFSETS[a[2]]
                db.set_location_offset(loc, off, force=a[3])
            elif k == "unset_off":
                loc = self._loc(d, a[1])
                db.unset_location_offset(loc)
            elif k == "rm_loc":
                loc = self._loc(d, a[1])
                db.remove_location(loc)
            elif k == "goc_name":
                name = NAMES[a[1]]
                res = db.get_or_create_name_location(name)
            elif k == "goc_off":
                off = OFFSETS[a[1]]
                res = db.get_or_create_offset_location(off)
        except Exception as e:
            exc = "%s" % type(e).__name__
        log.add(tag, k, a[1:], "->", res.key if isinstance(res, self.LocKey) else res, exc)

        m = d.model
        if exc is not None:
            w.probe("rejected")
            if loc is not None and loc not in m:
                w.probe("rejected_unknown_loc")
            if k == "add":
                w.probe("strict_reject")
            after = d.snapshot()
            if after != before:
                raise Violation("C28/rejected-op-changed-db", "%s %s raised %s but database changed: %s -> %s"
                                % (k, a[1:], exc, before, after), facts)
            return

        # the call returned normally: apply its effect to the model
        if k in ("add", "add_ns", "goc_name", "goc_off"):
            name_l = d.name_owner(name) if name is not None else None
            off_l = d.offset_owner(off) if off is not None else None
            if k == "add_ns":
                facts["name_known"] = name_l is not None
                facts["offset_known"] = off_l is not None
                if name_l is not None and off_l is not None:
                    w.probe("nonstrict_both_known")
                elif name_l is not None:
                    w.probe("nonstrict_known_name")
                elif off_l is not None:
                    w.probe("nonstrict_known_offset_new_name" if name is not None else "nonstrict_known_offset")
                else:
                    w.probe("nonstrict_new")
            if not isinstance(res, self.LocKey):
                raise Violation("C28/creation-returns-no-location", "%s %s returned %r" % (k, a[1:], res), facts)
            if k == "add" or (name_l is None and off_l is None):
                if k == "add" and (name_l is not None or off_l is not None):
                    raise Violation("C28/accepted-conflicting-op", "strict add_location(%r, %r) accepted although known" % (name, off), facts)
                if res in m:
                    raise Violation("C28/accepted-conflicting-op", "creation returned the existing %r" % res, facts)
                m[res] = [off, set([name]) if name is not None else set()]
                d.pool.append(res)
            else:
                target = name_l if name_l is not None else off_l
                if name_l is not None and off_l is not None and name_l != off_l:
                    raise Violation("C28/accepted-conflicting-op", "non-strict add(%r, %r) accepted although name and offset belong to %r and %r"
                                    % (name, off, name_l, off_l), facts)
                if res != target:
                    raise Violation("C28/nonstrict-wrong-location", "non-strict add(%r, %r) returned %r, holder is %r"
                                    % (name, off, res, target), facts)
                if off is not None:
                    if m[target][0] not in (None, off):
                        raise Violation("C28/accepted-conflicting-op", "non-strict add(%r, %r): location already at offset %r"
                                        % (name, off, m[target][0]), facts)
                    m[target][0] = off
                if name is not None:
                    m[target][1].add(name)
            # clause: returned location carries the requested name and offset
            if name is not None and name not in db.get_location_names(res):
                raise Violation("C28/nonstrict-wrong-location", "returned %r lacks name %r" % (res, name), facts)
            if off is not None and db.get_location_offset(res) != off:
                raise Violation("C28/nonstrict-wrong-location", "returned %r has offset %r, asked %r"
                                % (res, db.get_location_offset(res), off), facts)
        else:
            if loc not in m:
                raise Violation("C28/accepted-conflicting-op", "%s on unknown %r accepted" % (k, loc), facts)
            if k == "add_name":
                owner = d.name_owner(name)
                if owner is not None and owner != loc:
                    raise Violation("C28/accepted-conflicting-op", "name %r of %r given to %r" % (name, owner, loc), facts)
                m[loc][1].add(name)
            elif k == "rm_name":
                if name not in m[loc][1]:
                    raise Violation("C28/accepted-conflicting-op", "removed name %r not held by %r" % (name, loc), facts)
                m[loc][1].discard(name)
            elif k == "set_off":
                owner = d.offset_owner(off)
                if owner is not None and owner != loc:
                    raise Violation("C28/accepted-conflicting-op", "offset %r of %r given to %r" % (off, owner, loc), facts)
                if m[loc][0] not in (None, off):
                    w.probe("force_override")
                m[loc][0] = off
            elif k == "unset_off":
                if m[loc][0] is None:
                    raise Violation("C28/accepted-conflicting-op", "unset offset of %r that has none" % loc, facts)
                m[loc][0] = None
            elif k == "rm_loc":
                w.probe("remove_location")
                del m[loc]
        self._compare(d, facts)

    def _compare(self, d, facts):
        try:
            d.db.consistency_check()
        except AssertionError:
            raise Violation("C28/inconsistent", "consistency_check() fails", facts)
        real = d.snapshot()
        model = d.model_snapshot()
        if real != model:
            raise Violation("C28/state-differs", "database %s, model %s" % (real, model), facts)

    def _merge(self, w, d, log):
        o = w.other
        facts = {"op": "merge"}
        # conflict analysis on the models (order independent)
        comp_self = {}
        conflict = False
        overlap = False
        parent = {}

        def find(x):
            while parent.setdefault(x, x) != x:
                parent[x] = parent[parent[x]]
                x = parent[x]
            return x

        def union(a, b):
            parent[find(a)] = find(b)
        for fl, (foff, fnames) in o.model.items():
            find(("f", fl.key))
            for n in fnames:
                sl = d.name_owner(n)
                if sl is not None:
                    union(("f", fl.key), ("s", sl.key))
                    overlap = True
            if foff is not None:
                sl = d.offset_owner(foff)
                if sl is not None:
                    union(("f", fl.key), ("s", sl.key))
                    overlap = True
        groups = {}
        for x in list(parent):
            groups.setdefault(find(x), []).append(x)
        for members in groups.values():
            selfs = [k for t, k in members if t == "s"]
            offs = set()
            for t, k in members:
                mm = d.model if t == "s" else o.model
                for l in mm:
                    if l.key == k and mm[l][0] is not None:
                        offs.add(mm[l][0])
            if len(selfs) > 1 or len(offs) > 1:
                conflict = True
        before = d.snapshot()
        exc = None
        try:
            d.db.merge(o.db)
        except Exception as e:
            exc = type(e).__name__
        log.add("main merge conflict=%s overlap=%s ->" % (conflict, overlap), exc)
        facts["conflict"] = conflict
        facts["overlap"] = overlap
        try:
            d.db.consistency_check()
        except AssertionError:
            raise Violation("C28/inconsistent", "consistency_check() fails after merge (%s)" % exc, facts)
        if exc is not None:
            if not conflict:
                raise Violation("C28/merge-fails", "merge of compatible databases raised %s; other = %s, self = %s"
                                % (exc, o.model_snapshot(), before), facts)
            w.probe("merge_conflict")
            d.resync()
            return
        if conflict:
            w.probe("merge_conflict")
            d.resync()
            self._compare(d, facts)
            return
        w.probe("merge_ok")
        if overlap:
            w.probe("merge_overlap_ok")
        db = d.db
        for fl, (foff, fnames) in o.model.items():
            targets = set()
            for n in fnames:
                t = db.get_name_location(n)
                if t is None:
                    raise Violation("C28/merge-lost-association", "name %r of the merged database is unknown" % n, facts)
                targets.add(t)
            if foff is not None:
                t = db.get_offset_location(foff)
                if t is None:
                    raise Violation("C28/merge-lost-association", "offset %r of the merged database is unknown" % foff, facts)
                targets.add(t)
            if len(targets) > 1:
                raise Violation("C28/merge-lost-association", "associations of one merged location were split over %s"
                                % sorted(t.key for t in targets), facts)
            for t in targets:
                if foff is not None and db.get_location_offset(t) != foff:
                    raise Violation("C28/merge-lost-association", "offset %r not carried by %r" % (foff, t), facts)
                if not fnames <= set(db.get_location_names(t)):
                    raise Violation("C28/merge-lost-association", "names %r not carried by %r" % (sorted(fnames), t), facts)
        # nothing of self lost, nothing invented
        for l, (off, names) in d.model.items():
            if l not in db.loc_keys or not names <= set(db.get_location_names(l)) or \
                    (off is not None and db.get_location_offset(l) != off):
                raise Violation("C28/merge-lost-association", "merge dropped an association of %r" % l, facts)
        all_names = set(n for m in (d.model, o.model) for l in m for n in m[l][1])
        all_offs = set(m[l][0] for m in (d.model, o.model) for l in m if m[l][0] is not None)
        if set(db.names) != all_names or set(db.offsets) != all_offs:
            raise Violation("C28/state-differs", "after merge names %s offsets %s, expected %s %s"
                            % (sorted(db.names), sorted(db.offsets), sorted(all_names), sorted(all_offs)), facts)
        d.resync()
        self._compare(d, facts)


_M = C28()


def get_machine(pid):
    return _M
