"""C29 — BoundedDict: histories of insertions, updates, lookups, deletions,
clears and destructions against a dict + use counters + callback ledger.

Faults: a deletion callback that raises (counted relaxation: afterwards only
the size bound and last-value clauses are judged), deletion of a missing key,
lookup of a missing key, destruction (last reference dropped) at an arbitrary
point of the history with a fresh incarnation afterwards.
"""
import gc

from simkit.core import Violation
from simkit.opmachine import OpMachine, World


class CbError(Exception):
    pass


class W(World):
    pass


class C29(OpMachine):
    pid = "C29"
    title = "BoundedDict size and callback contract"
    rule = ("seeded histories (1-60 ops) of set/get/in/del/clear/drop/len/keys over "
            "max_size 1-8, min_size None or 1..max_size, pool of <=10 keys, unique values; "
            "a run is non-trivial when >=3 operations executed; distinct = distinct event-log digest "
            "(log records every operation, its result, the key set and the callback ledger)")
    real_components = ["miasm.core.utils.BoundedDict (real code, from the working tree)"]
    stub_components = ["reference model: dict + lifetime/since-reset use counters + callback ledger",
                       "deletion callback: recorder, optionally raising at a seeded invocation (fault)"]
    assumptions = ["min_size <= max_size and max_size >= 1 (other values are outside the documented domain)",
                   "'most used' is judged only when lifetime and since-last-eviction use counts agree on the order"]
    quick_runs = 30000
    thorough_runs = 600000
    chunk = 500
    expected_probes = ["evictions", "evicted_keys", "del_present", "del_missing", "clear",
                       "drop", "get_missing", "cb_raise_fault", "update_existing",
                       "most_used_pairs_judged"]

    def setup(self):
        from miasm.core.utils import BoundedDict
        self.BoundedDict = BoundedDict

    # -- generation --------------------------------------------------------
    def gen(self, rng, steer):
        max_size = rng.choice([1, 2, 3, 3, 4, 5, 6, 7, 8])
        if rng.random() < 0.5:
            min_size = None
        else:
            min_size = rng.randint(1, max_size)
        nkeys = rng.randint(2, 10)
        n = rng.randint(1, 60)
        cfg = {"max_size": max_size, "min_size": min_size,
               "init": [], "cb_raise_at": None, "use_cb": rng.random() < 0.9}
        if rng.random() < 0.2 and max_size > 1:
            cfg["init"] = [rng.randrange(nkeys) for _ in range(rng.randint(1, max_size - 1))]
        if cfg["use_cb"] and rng.random() < 0.1:
            cfg["cb_raise_at"] = rng.randint(0, 6)
        weights = {"set": rng.choice([3, 6, 10]), "get": rng.choice([0, 3, 8]),
                   "in": 1, "del": rng.choice([0, 1, 3]), "clear": rng.choice([0, 0, 1]),
                   "drop": rng.choice([0, 0, 1]), "len": 1, "keys": 1}
        kinds = [k for k, w in weights.items() for _ in range(w)]
        actions = []
        for _ in range(n):
            k = rng.choice(kinds)
            if k in ("set", "get", "in", "del"):
                actions.append([k, rng.randrange(nkeys)])
            else:
                actions.append([k])
        return {"cfg": cfg, "actions": actions}

    def simplify_action(self, a):
        if len(a) > 1 and a[1] != 0:
            yield [a[0], 0]
            yield [a[0], a[1] - 1]

    def simplify_cfg(self, cfg):
        if cfg["init"]:
            c = dict(cfg); c["init"] = []; yield c
        if cfg["cb_raise_at"] is not None:
            c = dict(cfg); c["cb_raise_at"] = None; yield c
        if cfg["min_size"] is not None:
            c = dict(cfg); c["min_size"] = None; yield c

    # -- world ---------------------------------------------------------------
    def make_world(self, cfg, log):
        w = W()
        w.cfg = cfg
        w.ledger = []          # callback invocations (keys), in order
        w.cb_calls = 0
        w.relaxed = False      # a raising callback was injected
        w.vcount = 0
        w.model = {}
        w.cur = {}
        w.life = {}
        self._new_incarnation(w, cfg["init"])
        return w

    def _new_incarnation(self, w, init):
        cfg = w.cfg

        def cb(key):
            n = w.cb_calls
            w.cb_calls += 1
            w.ledger.append(key)
            if w.cfg["cb_raise_at"] is not None and n == w.cfg["cb_raise_at"]:
                w.relaxed = True
                w.probe("cb_raise_fault")
                raise CbError(key)

        initial = {}
        for k in init:
            w.vcount += 1
            initial[k] = w.vcount
        w.model = dict(initial)
        w.cur = {k: 1 for k in initial}
        w.life = {k: 1 for k in initial}
        w.bd = self.BoundedDict(cfg["max_size"], min_size=cfg["min_size"],
                                initialdata=initial or None,
                                delete_cb=cb if cfg["use_cb"] else None)

    def _resync(self, w):
        data = dict(w.bd.data)
        w.model = data
        w.cur = {k: w.cur.get(k, 1) for k in data}
        w.life = {k: w.life.get(k, 1) for k in data}

    def apply(self, w, a, log):
        bd = w.bd
        cfg = w.cfg
        kind = a[0]
        ledger_before = len(w.ledger)
        pre = set(w.model)
        facts = {"max_size": cfg["max_size"], "min_size": cfg["min_size"], "op": kind}
        raised = None
        result = None
        try:
            if kind == "set":
                w.vcount += 1
                bd[a[1]] = w.vcount
            elif kind == "get":
                result = bd[a[1]]
            elif kind == "in":
                result = a[1] in bd
            elif kind == "del":
                del bd[a[1]]
            elif kind == "clear":
                bd.clear()
            elif kind == "drop":
                held = set(bd.data)
                w.bd = None
                del bd
                gc.collect()
            elif kind == "len":
                result = len(bd)
            elif kind == "keys":
                result = sorted(bd.keys())
        except KeyError as e:
            raised = "KeyError"
        except CbError:
            raised = "CbError"
        new_cb = w.ledger[ledger_before:]
        log.add(kind, a[1:], "->", result, raised, "cb", new_cb)

        if raised == "CbError" or (w.relaxed and kind != "drop"):
            # Fault injected: the statement is silent about a raising callback.
            # Only the size bound and the last-value clause stay judged.
            if w.bd is not None:
                data = w.bd.data
                if len(data) > cfg["max_size"]:
                    raise Violation("C29/len-exceeds-max", "len %d > max_size %d after raising callback"
                                    % (len(data), cfg["max_size"]), facts)
                if kind == "set" and raised is None and data.get(a[1]) != w.vcount:
                    raise Violation("C29/wrong-value", "stored value lost", facts)
                self._resync(w)
            return

        if kind == "set":
            key = a[1]
            real = set(bd.data)
            if key not in real:
                raise Violation("C29/wrong-value", "key %r absent right after it was stored" % key, facts)
            if key in pre:
                w.probe("update_existing")
                if real != pre:
                    raise Violation("C29/evict-on-update", "update of existing key changed key set %s -> %s"
                                    % (sorted(pre), sorted(real)), facts)
                if new_cb:
                    raise Violation("C29/callback-for-kept", "callback %s on update of existing key" % new_cb, facts)
                w.cur[key] += 1
                w.life[key] += 1
            else:
                evicted = pre - real
                extra = real - pre - {key}
                if extra:
                    raise Violation("C29/wrong-value", "keys appeared from nowhere: %s" % sorted(extra), facts)
                if evicted:
                    w.probe("evictions")
                    w.probe("evicted_keys", len(evicted))
                    if len(pre) + 1 < cfg["max_size"]:
                        raise Violation("C29/evict-below-limit",
                                        "eviction of %s while holding %d keys, max_size %d"
                                        % (sorted(evicted), len(pre), cfg["max_size"]), facts)
                    survivors = pre & real
                    for s in survivors:
                        for e in evicted:
                            w.probe("most_used_pairs_judged")
                            if w.cur[e] > w.cur[s] and w.life[e] > w.life[s]:
                                raise Violation("C29/evicted-more-used",
                                                "kept key %r (uses %d) but evicted key %r (uses %d)"
                                                % (s, w.cur[s], e, w.cur[e]), facts)
                if cfg["use_cb"]:
                    if sorted(new_cb) != sorted(evicted):
                        cls = "C29/callback-for-kept" if set(new_cb) - evicted else "C29/callback-missing"
                        raise Violation(cls, "evicted %s but callbacks %s" % (sorted(evicted), new_cb), facts)
                for e in evicted:
                    del w.model[e], w.cur[e], w.life[e]
                if evicted or len(pre) + 1 >= cfg["max_size"]:
                    # resize event (possibly dropping nothing): use counts restart
                    for s in w.cur:
                        w.cur[s] = 1
                w.cur[key] = 1
                w.life[key] = 1
            w.model[key] = w.vcount
        elif kind == "get":
            key = a[1]
            if key in w.model:
                if raised or result != w.model[key]:
                    raise Violation("C29/wrong-value", "get(%r) = %r/%s, last stored %r"
                                    % (key, result, raised, w.model[key]), facts)
                w.cur[key] += 1
                w.life[key] += 1
            else:
                w.probe("get_missing")
                if raised != "KeyError":
                    raise Violation("C29/wrong-value", "get of missing key %r returned %r" % (key, result), facts)
            if new_cb:
                raise Violation("C29/callback-for-kept", "callback %s during lookup" % new_cb, facts)
        elif kind == "in":
            if result != (a[1] in w.model):
                raise Violation("C29/wrong-value", "%r in d = %r, model %r" % (a[1], result, a[1] in w.model), facts)
        elif kind == "del":
            key = a[1]
            if key in w.model:
                w.probe("del_present")
                if raised:
                    raise Violation("C29/wrong-value", "del of held key %r raised %s" % (key, raised), facts)
                if cfg["use_cb"] and new_cb != [key]:
                    raise Violation("C29/callback-missing" if not new_cb else "C29/callback-for-kept",
                                    "del %r: callbacks %s" % (key, new_cb), facts)
                del w.model[key], w.cur[key], w.life[key]
            else:
                w.probe("del_missing")
                # statement is silent on a callback for a key that is not held
                if raised != "KeyError":
                    raise Violation("C29/wrong-value", "del of missing key %r did not raise" % key, facts)
                if set(new_cb) - {key}:
                    raise Violation("C29/callback-for-kept", "del of missing key: callbacks %s" % new_cb, facts)
        elif kind == "clear":
            w.probe("clear")
            if cfg["use_cb"] and sorted(new_cb) != sorted(pre):
                raise Violation("C29/callback-missing", "clear of %s: callbacks %s" % (sorted(pre), new_cb), facts)
            w.model, w.cur, w.life = {}, {}, {}
        elif kind == "drop":
            w.probe("drop")
            if cfg["use_cb"] and not w.relaxed and sorted(new_cb) != sorted(pre):
                raise Violation("C29/callback-missing", "destruction holding %s: callbacks %s"
                                % (sorted(pre), new_cb), facts)
            w.relaxed = w.relaxed and False
            self._new_incarnation(w, [])
            return
        elif kind == "len":
            if result != len(w.model):
                raise Violation("C29/wrong-value", "len %r, model %d" % (result, len(w.model)), facts)
        elif kind == "keys":
            if result != sorted(w.model):
                raise Violation("C29/wrong-value", "keys %r, model %r" % (result, sorted(w.model)), facts)

    def invariant(self, w, log):
        if w.bd is None or w.relaxed:
            return
        cfg = w.cfg
        data = w.bd.data
        facts = {"max_size": cfg["max_size"], "min_size": cfg["min_size"], "op": "invariant"}
        if len(data) > cfg["max_size"]:
            raise Violation("C29/len-exceeds-max", "holds %d keys, max_size %d" % (len(data), cfg["max_size"]), facts)
        if dict(data) != w.model:
            raise Violation("C29/wrong-value", "content %r, model %r" % (dict(data), w.model), facts)

    def teardown(self, w):
        w.cfg = dict(w.cfg, cb_raise_at=None)
        w.bd = None


_M = C29()


def get_machine(pid):
    return _M
