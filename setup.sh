#!/bin/sh
# Offline setup: nothing to download.  Builds the C extensions of /repo's
# working tree into /verif/.build (the checks rebuild on demand as well).
set -e
cd "$(dirname "$0")"
mkdir -p evidence replays logs
if [ -f simkit/build.py ]; then
    PYTHONHASHSEED=0 /venv/bin/python -m simkit.build || exit 1
fi
echo setup ok
